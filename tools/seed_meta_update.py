#!/usr/bin/env python3
"""tools/seed_meta_update.py <audit-file> <matrix-file>...: records in every seeded/<id>/meta.json what was run here to confirm the
change (tools/seed_audit.sh line) and what the check of its property reported (tools/seed_matrix.sh line)."""
import glob, json, os, re, subprocess, sys
V = os.path.dirname(os.path.dirname(os.path.abspath(__file__)))
head = subprocess.run(["git", "-C", "/repo", "log", "-1", "--format=%h"], capture_output=True, text=True).stdout.strip()
audit, matrix = {}, {}
for line in open(sys.argv[1], errors="replace"):
    m = re.match(r"^(C\d+_\d+) (apply=.*)$", line.strip())
    if m:
        audit[m.group(1)] = m.group(2)
for f in sys.argv[2:]:
    for line in open(f, errors="replace"):
        m = re.match(r"^(C\d+_\d+) (C\d+) demo_rc=(\S+) check_rc=(\S+) ::\s*(.*)$", line.strip())
        if m:
            matrix[m.group(1)] = dict(check=m.group(2), demo_rc_with_patch=m.group(3), check_rc=m.group(4), first_signatures=re.findall(r"signature=(\S+)", m.group(5))[:3])
n = 0
for d in glob.glob(os.path.join(V, "seeded", "C*_*")):
    sid = os.path.basename(d)
    p = os.path.join(d, "meta.json")
    meta = json.load(open(p))
    meta["confirmed_here"] = dict(repo_head=head, seed_audit=audit.get(sid, "not run"), command="tools/seed_audit.sh " + sid + " (scratch worktree: patch applies, tools/baseline_check.py, demo without/with patch)")
    if sid in matrix:
        meta["check_result"] = dict(matrix[sid], command=f"tools/seedtest.sh {sid}  (= VF_REPO_DIR=<scratch worktree with the patch> ./check {matrix[sid]['check']} --tier quick)")
    json.dump(meta, open(p, "w"), indent=1, ensure_ascii=False)
    n += 1
print("updated", n, "meta.json files")
