#!/usr/bin/env python3
"""Regenerates /verif/MANIFEST.json from vf/checks/meta.py (claimed checks) and properties.jsonl
(everything not claimed goes under not_applicable with the reason given in NOT_CLAIMED)."""
import json
import os
import sys

HERE = os.path.dirname(os.path.dirname(os.path.abspath(__file__)))
sys.path.insert(0, HERE)
from vf.checks.meta import META, NOT_CLAIMED  # noqa: E402

props = [json.loads(l) for l in open(os.path.join(HERE, "properties.jsonl")) if l.strip()]
baseline = json.load(open("/root/.vp/BASELINE.json"))["cmd"] if os.path.exists("/root/.vp/BASELINE.json") else ""
baseline = baseline.replace(" --junitxml=<file>", "")

checks = []
for p in props:
    pid = p["id"]
    if pid not in META:
        continue
    m = META[pid]
    checks.append(
        dict(
            property_id=pid,
            quick_cmd=f"./check {pid} --tier quick",
            thorough_cmd=f"./check {pid} --tier thorough",
            evidence_file=f"evidence/{pid}.json",
            replay_cmd_template=f"./check {pid} --replay {{path}}",
            engine="vf",
            level_claimed=dict(category=m["level"], text=m["level_text"], design_ref=f"DESIGN.md §4 {pid}"),
            level_note=m["level_note"],
            technique=m["technique"],
        )
    )
na = [dict(property_id=p["id"], reason=NOT_CLAIMED.get(p["id"], "check not built yet")) for p in props if p["id"] not in META]
manifest = dict(
    version=1,
    setup_cmd="./setup.sh",
    hooks=dict(
        guard="JSONARGPARSE_VERIF",
        enable="none needed: the repository carries no verification hooks; all probes are attached from the harness "
        "(attribute rebinding, sys.addaudithook, sys.monitoring, icontract). The runner exports JSONARGPARSE_VERIF=1 for form.",
        baseline_off_cmd="cd /repo && env -u JSONARGPARSE_VERIF /venv/bin/python -m pytest -ra -q -p no:cacheprovider --timeout=900 --continue-on-collection-errors",
        source_commits=[],
        add_only=True,
    ),
    engines=[
        dict(
            name="vf",
            path="vf/",
            serves_properties=[c["property_id"] for c in checks],
            kind_free_text="runtime monitoring: seeded workload generators drive the real library in sharded subprocesses; "
            "boundary recorders, audit hooks, icontract contracts and reference-model/differential/metamorphic monitors judge "
            "the recorded executions; three-valued verdict with adequacy gates",
        )
    ],
    checks=checks,
    not_applicable=na,
    notes="Exit 0 held on what was observed (KNOWN-FINDING lines possible), 1 VIOLATION, 2 INCONCLUSIVE (adequacy gate or watchdog). "
    "Known findings: known_findings.json. Seeded breakages used to validate the monitors: seeded/.",
)
with open(os.path.join(HERE, "MANIFEST.json"), "w") as f:
    json.dump(manifest, f, indent=1)
    f.write("\n")
print("claimed:", [c["property_id"] for c in checks], "not claimed:", [x["property_id"] for x in na])
