#!/bin/bash
# tools/seed_audit.sh <seed-id>: one line per seed: does the patch apply to /repo's HEAD, does the repository's own
# suite still pass with it (tools/baseline_check.py on a scratch worktree), does the demonstration fail with it and
# pass without it. Scratch worktree under /var/tmp, removed afterwards.
id=$1
wt=/var/tmp/seedaudit-$id-$$
git -C /repo worktree add -q --detach $wt HEAD || exit 9
cleanup() { git -C /repo worktree remove --force $wt >/dev/null 2>&1; rm -rf $wt; }
trap cleanup EXIT
patch=/verif/seeded/$id/patch.diff; [ -f /verif/seeded/$id/patch_rebased.diff ] && patch=/verif/seeded/$id/patch_rebased.diff
if ! git -C $wt apply --3way $patch >/dev/null 2>&1; then echo "$id apply=FAILED"; exit 0; fi
(cd $wt && PYTHONPATH=$wt timeout 300 /venv/bin/python /verif/seeded/$id/demo.py >/dev/null 2>&1); dp=$?
(cd /var/tmp && PYTHONPATH=/repo timeout 300 /venv/bin/python /verif/seeded/$id/demo.py >/dev/null 2>&1); d0=$?
out=$(/venv/bin/python /verif/tools/baseline_check.py $wt 2>&1)
suite=$(echo "$out" | tail -1 | grep -o "missing=[0-9]*"); [ -z "$suite" ] && suite="notpassing=$(echo "$out" | grep -c 'NOT PASSING')_of_the_1179_stable_tests_at_this_HEAD"
echo "$id apply=ok patch=$(basename $patch) suite_$suite demo_unchanged_rc=$d0 demo_patched_rc=$dp"
