#!/bin/bash
# tools/pristine_status.sh [repo]: runs every script under seeded/PRISTINE/<prop>/ (written by the round-3 sub-agents: each exits 1
# when the behaviour they reported on the then-unchanged tree is present, 0 when the library behaves as the property demands)
# against the repository and prints one line per script.
V=$(cd "$(dirname "$0")/.." && pwd); repo=${1:-/repo}
for f in $(ls $V/seeded/PRISTINE/*/*.py | sort); do
  d=$(mktemp -d /var/tmp/pristine.XXXXXX)
  (cd $d && PYTHONPATH=$repo HOME=$d timeout 120 /venv/bin/python $f >/dev/null 2>&1); rc=$?
  rm -rf $d
  echo "$(basename $(dirname $f))/$(basename $f) rc=$rc"
done
