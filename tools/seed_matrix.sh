#!/bin/bash
# tools/seed_matrix.sh [tier] [ids...]: every seeded change against the check of its property (seedtest.sh), two at a time.
V=$(cd "$(dirname "$0")/.." && pwd)
tier=${1:-quick}; shift
ids=${@:-$(ls $V/seeded | grep -E '^C[0-9]+_[0-9]+$')}
( [ -x $V/setup.sh ] && cd $V && ./setup.sh >/dev/null 2>&1 )
echo $ids | tr ' ' '\n' | xargs -P 2 -I{} $V/tools/seedtest.sh {} "" $tier | sort
