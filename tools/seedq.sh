#!/bin/bash
# tools/seedq.sh <parallel> <id>... : tools/seedtest.sh for each id, at most <parallel> at a time; one line per seed.
par=$1; shift
printf '%s\n' "$@" | xargs -P $par -I{} "$(dirname "$0")/seedtest.sh" {}
