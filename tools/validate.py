#!/venv/bin/python
"""Validates MANIFEST.json and every evidence file against the schemas in /root/.vp."""
import glob, json, os, sys
import jsonschema
HERE = os.path.dirname(os.path.dirname(os.path.abspath(__file__)))
ok = True
def v(path, schema):
    global ok
    try:
        jsonschema.validate(json.load(open(path)), json.load(open(schema)))
        print("ok  ", path)
    except Exception as ex:
        ok = False
        print("FAIL", path, str(ex)[:300])
v(os.path.join(HERE, "MANIFEST.json"), "/root/.vp/MANIFEST.schema.json")
for f in sorted(glob.glob(os.path.join(HERE, "evidence", "*.json"))):
    v(f, "/root/.vp/EVIDENCE.schema.json")
sys.exit(0 if ok else 1)
