#!/bin/bash
# tools/sweep.sh "<seeds>" [tier] [props...] : runs the claimed checks for several seeds, prints one line per run and every VIOLATION/INCONCLUSIVE.
seeds=${1:-"0 1 2"}; tier=${2:-quick}; shift; shift
props=${@:-$(python3 -c "import json;print(' '.join(c['property_id'] for c in json.load(open('MANIFEST.json'))['checks']))")}
for s in $seeds; do for p in $props; do
  out=$(VERIF_SEED=$s ./check $p --tier $tier 2>&1); rc=$?
  echo "seed=$s $p rc=$rc $(echo "$out" | tail -1)"
  if [ $rc -ne 0 ]; then echo "$out" | grep -A1 -E "VIOLATION|INCONCLUSIVE" | head -12; fi
done; done
