#!/usr/bin/env python3
"""tools/gen_anchors.py — maps the `anchors.mechanism[].where` line ranges of properties.jsonl (which refer to the pinned
commit of /repo) to function qualified names, by parsing the files *as of that commit*. Writes vf/rt/anchors.json:
{prop: [[module, qualname], ...]}. The mechanism-coverage observer (vf/rt/mechcov.py) resolves those names in the current
working tree at run time, so later edits of the repository that move lines do not matter."""
import ast, json, os, re, subprocess, sys

HERE = os.path.dirname(os.path.dirname(os.path.abspath(__file__)))
PINNED = subprocess.run(["git", "-C", "/repo", "rev-list", "--max-parents=0", "HEAD"], capture_output=True, text=True).stdout.split()[0]


def functions(path):
    src = subprocess.run(["git", "-C", "/repo", "show", f"{PINNED}:{path}"], capture_output=True, text=True).stdout
    tree = ast.parse(src)
    out = []

    def walk(node, prefix):
        for ch in ast.iter_child_nodes(node):
            if isinstance(ch, (ast.FunctionDef, ast.AsyncFunctionDef)):
                q = prefix + ch.name
                out.append((q, ch.lineno, ch.end_lineno))
                walk(ch, q + ".<locals>.")
            elif isinstance(ch, ast.ClassDef):
                walk(ch, prefix + ch.name + ".")
            else:
                walk(ch, prefix)

    walk(tree, "")
    return out


def main():
    cache = {}
    res = {}
    for line in open(os.path.join(HERE, "properties.jsonl")):
        d = json.loads(line)
        names = []
        for m in d["anchors"]["mechanism"]:
            for part in m["where"].split(";"):
                part = part.strip()
                path, _, ranges = part.partition(":")
                if path not in cache:
                    cache[path] = functions(path)
                for r in ranges.split(","):
                    lo, _, hi = r.strip().partition("-")
                    lo, hi = int(lo), int(hi or lo)
                    for q, a, b in cache[path]:
                        if a <= hi and b >= lo:
                            mod = path[:-3].replace("/", ".")
                            if [mod, q] not in names:
                                names.append([mod, q])
        res[d["id"]] = names
    with open(os.path.join(HERE, "vf", "rt", "anchors.json"), "w") as f:
        json.dump({"pinned_commit": PINNED, "anchors": res}, f, indent=1)
    for k, v in res.items():
        print(k, len(v))


main()
