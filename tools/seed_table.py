#!/usr/bin/env python3
"""tools/seed_table.py <matrix-output-file>...: writes seeded/RESULTS.md — one row per seeded change: what was changed, what it
needs, and what the check of its property reported (from tools/seed_matrix.sh output lines)."""
import glob, json, os, re, sys

V = os.path.dirname(os.path.dirname(os.path.abspath(__file__)))
res = {}
for f in sys.argv[1:]:
    for line in open(f, errors="replace"):
        m = re.match(r"^(C\d+_\d+) (C\d+) demo_rc=(\S+) check_rc=(\S+) ::\s*(.*)$", line.strip())
        if m:
            sid, prop, demo, rc, rest = m.groups()
            sigs = re.findall(r"monitor=(\S+) signature=(\S+)", rest)
            res[sid] = (prop, demo, rc, sigs)
rows = []
for d in sorted(glob.glob(os.path.join(V, "seeded", "C*_*")), key=lambda p: (p.split("/")[-1].split("_")[0], int(p.split("_")[-1]))):
    sid = os.path.basename(d)
    meta = json.load(open(os.path.join(d, "meta.json")))
    prop, demo, rc, sigs = res.get(sid, (meta["property"], "?", "not run", []))
    verdict = {"1": "caught", "0": "MISSED", "2": "inconclusive"}.get(rc, rc)
    if demo == "0" and rc == "1":
        verdict = "caught (by another witness: its own demonstration no longer fails on the current tree)"
    elif demo == "0":
        verdict = "neutralised by a later fix: commit (its demonstration no longer fails on the current tree; nothing reported)"
    first = "; ".join(f"{m}: {s}" for m, s in sigs[:2])
    patch = "patch_rebased.diff" if os.path.exists(os.path.join(d, "patch_rebased.diff")) else "patch.diff"
    rows.append(f"| {sid} | {meta['summary'][:230].replace('|', '/')} | {verdict} | {first[:260].replace('|', '/')} | {patch} |")
caught = sum(1 for r in rows if "| caught" in r)
with open(os.path.join(V, "seeded", "RESULTS.md"), "w") as f:
    f.write("# Seeded changes against the checks\n\n")
    f.write("Produced by independent sub-agents that saw only the text of one property and a scratch worktree (never /verif).\n")
    f.write("Every change applied to the /repo HEAD of its time, passed the repository's own suite (tools/seed_audit.sh) and comes with a\n")
    f.write("demonstration that exits 0 on the unchanged tree and 1 with the change. Verdicts are from `tools/seed_matrix.sh quick`\n")
    f.write("(check of the change's property, quick tier, VERIF_SEED=0, scratch worktree via VF_REPO_DIR) at the final HEAD; each\n")
    f.write("meta.json records the audit and check lines. At the final HEAD four changes are neutralised by later fix: commits\n")
    f.write("(C04_2, C08_3, C10_4, C16_10: their demonstrations pass with the patch; C02_4 is caught by another witness), and three (C09_2, C10_3, C14_3: the same lost\n")
    f.write("try/finally in sub_defaults_context) now also make 5 of the repository's own tests fail, which they did not when written.\n\n")
    f.write(f"{caught} of {len(rows)} caught in the quick tier.\n\n")
    f.write("| id | change | verdict | first signatures reported | patch |\n|---|---|---|---|---|\n")
    f.write("\n".join(rows) + "\n")
print(f"{caught}/{len(rows)} caught; wrote seeded/RESULTS.md")
