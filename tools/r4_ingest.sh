#!/bin/bash
# tools/r4_ingest.sh <prop>: copies the round-4 sub-agent output /tmp/wt4-<prop>-out/{a,b,c} to seeded/<prop>_{10,11,12},
# audits each (patch applies to /repo HEAD on a scratch worktree, repository suite still passes, demo 0 unchanged / 1 patched)
# and runs the property's quick check against the patched scratch worktree. One line per seed for audit and check.
V=$(cd "$(dirname "$0")/.." && pwd)
p=$1; n=10
for k in a b c; do
  src=/tmp/wt4-$p-out/$k; id=${p}_$n; n=$((n+1))
  [ -f $src/patch.diff ] || { echo "$id (kind $k): no patch.diff"; continue; }
  mkdir -p $V/seeded/$id
  cp $src/patch.diff $src/demo.py $V/seeded/$id/ 2>/dev/null
  [ -f $src/meta.json ] && cp $src/meta.json $V/seeded/$id/meta.json
  $V/tools/seed_audit.sh $id
  $V/tools/seedtest.sh $id
done
if [ -d /tmp/wt4-$p-out/pristine ]; then mkdir -p $V/seeded/PRISTINE/$p; for f in /tmp/wt4-$p-out/pristine/*.py; do [ -f "$f" ] && cp $f $V/seeded/PRISTINE/$p/r4_$(basename $f); done; fi
