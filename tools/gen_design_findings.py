#!/venv/bin/python
"""tools/gen_design_findings.py: regenerates DESIGN.md section 11 (defects found) from known_findings.json and updates the counts
quoted in the status paragraph."""
import json, re, subprocess
k = json.load(open('/verif/known_findings.json'))
fixed = [e for e in k['findings'] if e['status'] == 'fixed']
known = [e for e in k['findings'] if e['status'] == 'known']
ncommits = len([l for l in subprocess.run(['git', '-C', '/repo', 'log', '--format=%s'], capture_output=True, text=True).stdout.splitlines() if l.startswith('fix:')])
out = ["## 11. Defects found on the unchanged tree", "",
"Each was reproduced against the real code from a witness before being classified (the `example` field of",
"`known_findings.json` holds a minimal reproduction). **Repaired** = one minimal unguarded `fix:` commit in `/repo`, existing",
"tests unedited and green (`tools/baseline_check.py`: all 1179 stable tests pass after each). **Recorded** = `known` entry:",
"the check prints `KNOWN-FINDING:` and exits 0; any *other* signature of the same property is still a `VIOLATION`.", "",
f"### 11.1 Repaired ({len(fixed)} entries, {ncommits} `fix:` commits)", "",
"| property | commit | what failed |", "|---|---|---|"]
for e in fixed:
    out.append(f"| {e['property']} | `{e['commit']}` | {e['what_fails'][:300].replace('|', '/')} |")
out += ["", f"### 11.2 Recorded as known findings ({len(known)})", "",
"Why not repaired: the behaviour is pinned by an existing test, or is a deliberate design choice of the library or of a",
"dependency (YAML 1.1 reader vs. writers, jsonnet doubles, argparse prefix matching), or a repair would be larger than a",
"maintainer would take as a drive-by patch.", "",
"| id | what fails |", "|---|---|"]
for e in known:
    out.append(f"| {e['id']} | {e['what_fails'][:320].replace('|', '/')} |")
out += ["", "---------------------------------------------------------------------------------------------------", "", ""]
p = '/verif/DESIGN.md'
s = open(p).read()
s = s[:s.index("## 11. Defects found")] + "\n".join(out) + s[s.index("## Appendix A"):]
s = re.sub(r"§11 the defects found \(\d+ `fix:` commits, \d+ known findings\)", f"§11 the defects found ({ncommits} `fix:` commits, {len(known)} known findings)", s)
s = re.sub(r"which is a false-alarm audit against \d+ real behaviour changes", f"which is a false-alarm audit against {ncommits} real behaviour changes", s)
open(p, 'w').write(s)
missing = [l for l in subprocess.run(['git', '-C', '/repo', 'log', '--format=%h %s'], capture_output=True, text=True).stdout.splitlines() if l.split(' ', 1)[1].startswith('fix:') and not any(l.split()[0] in e.get('commit', '') or l.split()[0] in e.get('fixed_line', '') for e in fixed)]
print(len(fixed), 'fixed entries;', ncommits, 'fix commits;', len(known), 'known; commits without entry:', missing)
