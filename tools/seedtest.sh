#!/bin/bash
# tools/seedtest.sh <seed-id> [prop] [tier]
# Applies seeded/<id>/patch.diff (patch_rebased.diff when present) to a scratch worktree of /repo's HEAD (outside /repo and
# /verif), runs the seed's demo and the check against it (VF_REPO_DIR, the runner's internal knob), removes the worktree.
# /repo itself is never touched, so this can run while other checks run. Prints one line:
# <seed> <prop> demo_rc check_rc first signatures.
V=$(cd "$(dirname "$0")/.." && pwd)
id=$1; prop=${2:-${id%%_*}}; tier=${3:-quick}
wt=/var/tmp/seedwt-$id-$$
git -C /repo worktree add -q --detach $wt HEAD || exit 9
cleanup() { git -C /repo worktree remove --force $wt >/dev/null 2>&1; rm -rf $wt; }
trap cleanup EXIT
if ! git -C $wt apply --3way $( [ -f $V/seeded/$id/patch_rebased.diff ] && echo $V/seeded/$id/patch_rebased.diff || echo $V/seeded/$id/patch.diff ) >/dev/null 2>&1; then echo "$id $prop APPLY-FAILED"; exit 8; fi
demo_rc=NA
if [ -f $V/seeded/$id/demo.py ]; then (cd $wt && PYTHONPATH=$wt timeout 300 /venv/bin/python $V/seeded/$id/demo.py >/dev/null 2>&1); demo_rc=$?; fi
out=$(cd $V && VF_REPO_DIR=$wt ./check $prop --tier $tier 2>&1); rc=$?
echo "$id $prop demo_rc=$demo_rc check_rc=$rc :: $(echo "$out" | grep -A1 VIOLATION | grep signature | head -3 | tr '\n' ' ' | cut -c1-400) $(echo "$out" | grep INCONCLUSIVE | head -1 | cut -c1-200)"
