#!/venv/bin/python
"""Runs the repository's baseline test command (guard unset) and checks every BASELINE stable_pass test passes."""
import json, os, subprocess, sys, tempfile
import xml.etree.ElementTree as ET
repo = sys.argv[1] if len(sys.argv) > 1 else "/repo"
base = json.load(open("/root/.vp/BASELINE.json"))
want = set(base["stable_pass"])
with tempfile.TemporaryDirectory(dir="/var/tmp") as d:
    xml = os.path.join(d, "j.xml")
    env = {k: v for k, v in os.environ.items() if k != "JSONARGPARSE_VERIF"}
    env["PYTHONPATH"] = repo
    p = subprocess.run(["/venv/bin/python", "-m", "pytest", "-ra", "-q", "-p", "no:cacheprovider", "--timeout=900",
                        "--continue-on-collection-errors", f"--junitxml={xml}"], cwd=repo, env=env, capture_output=True, text=True)
    print(p.stdout.strip().splitlines()[-1])
    passed = set()
    for tc in ET.parse(xml).getroot().iter("testcase"):
        if not any(ch.tag in ("failure", "error", "skipped") for ch in tc):
            passed.add(f"{tc.get('classname')}::{tc.get('name')}")
missing = sorted(want - passed)
print(f"stable_pass={len(want)} passed_now={len(passed)} missing={len(missing)}")
for m in missing[:20]:
    print("  NOT PASSING:", m)
sys.exit(1 if missing else 0)
