#!/usr/bin/env python3
"""Debug helper: summarise violation signatures (with one example each) from kept shard logs of a check."""
import collections, glob, json, sys
prop = sys.argv[1]
n = int(sys.argv[2]) if len(sys.argv) > 2 else 700
seen = collections.Counter(); ex = {}; inc = set()
for f in glob.glob(f'/verif/.work/{prop}-*/shard*.jsonl'):
    for l in open(f):
        try: r = json.loads(l)
        except ValueError: continue
        if r.get('t') == 'violation':
            s = r['monitor'] + ' ' + r['signature']; seen[s] += 1
            if s not in ex and r.get('witness'): ex[s] = r['witness']
        if r.get('t') == 'inconclusive':
            k = str(r)[:120]
            if k not in inc: inc.add(k); print('INCONCLUSIVE', str(r)[:400])
for s, c in seen.most_common():
    print(c, s); print('     ', json.dumps(ex.get(s), default=str)[:n])
