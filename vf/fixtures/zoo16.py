"""Recording classes for C16 (instantiation links): every constructor appends to LOG."""
from typing import Any

LOG = []


class Base:
    idx = -1

    def __init__(self, f0: Any = None, f1: Any = None, f2: Any = None, f3: Any = None, own: int = 1):
        if own == 13:
            raise RuntimeError("unlucky constructor argument (deliberate failure of a sink component)")
        self.kw = dict(f0=f0, f1=f1, f2=f2, f3=f3, own=own)
        self.attr = own * 10 + self.idx
        LOG.append((type(self).__name__, id(self), self))


class C0(Base):
    idx = 0


class C1(Base):
    idx = 1


class C2(Base):
    idx = 2


class C3(Base):
    idx = 3


CLASSES = [C0, C1, C2, C3]


def fn_tag(v):
    return ("fn", v)
