"""Recording classes for C16 (instantiation links): every constructor appends to LOG."""
from typing import Any

LOG = []


class Base:
    idx = -1

    def __init__(self, f0: Any = None, f1: Any = None, f2: Any = None, f3: Any = None, own: int = 1):
        if own == 13:
            raise RuntimeError("unlucky constructor argument (deliberate failure of a sink component)")
        self.kw = dict(f0=f0, f1=f1, f2=f2, f3=f3, own=own)
        self.attr = own * 10 + self.idx
        LOG.append((type(self).__name__, id(self), self))


class C0(Base):
    idx = 0


class C1(Base):
    idx = 1


class C2(Base):
    idx = 2


class C3(Base):
    idx = 3


CLASSES = [C0, C1, C2, C3]


class N0(Base):
    idx = 10


class N1(Base):
    idx = 11


class N2(Base):
    idx = 12


class N3(Base):
    idx = 13


NESTED = [N0, N1, N2, N3]


class Holder(Base):
    """a component with a class-typed parameter of its own: links may target the parameters of that nested object"""

    def __init__(self, inner: Base, f0: Any = None, f1: Any = None, f2: Any = None, f3: Any = None, own: int = 1):
        super().__init__(f0, f1, f2, f3, own)
        self.inner = inner


class H0(Holder):
    idx = 0


class H1(Holder):
    idx = 1


class H2(Holder):
    idx = 2


class H3(Holder):
    idx = 3


HOLDERS = [H0, H1, H2, H3]


def fn_tag(v):
    return ("fn", v)


class Leaf(Base):
    idx = 20


class Mid(Base):
    """nested one level inside Top, itself holding a nested Leaf"""

    idx = 21

    def __init__(self, leaf: Base, f0: Any = None, f1: Any = None, f2: Any = None, f3: Any = None, own: int = 1):
        super().__init__(f0, f1, f2, f3, own)
        self.leaf = leaf


class Top(Base):
    idx = 22

    def __init__(self, mid: Base, f0: Any = None, f1: Any = None, f2: Any = None, f3: Any = None, own: int = 1):
        super().__init__(f0, f1, f2, f3, own)
        self.mid = mid
