"""Fixed importable fixtures: Enums, dataclasses, class families, callables. Constructors of the class
families record into CALLS (event stream for 'exactly once', 'in this order', 'with these arguments')."""

from __future__ import annotations

import abc
import enum

from jsonargparse import lazy_instance
from dataclasses import dataclass, field
from typing import Any, Dict, List, Optional, Tuple, Union

CALLS: list = []


def rec(obj, **kw):
    CALLS.append((type(obj).__name__, id(obj), kw, obj))


# ---- Enums ---------------------------------------------------------------------------------------
class Color(enum.Enum):
    red = 1
    green = 2
    blue = 3


class Tricky(enum.Enum):
    """Member names a YAML reader could take for something else."""

    true = "t"
    null = "n"
    A1 = "a"
    yes = 7
    off = 0


class Num(enum.IntEnum):
    one = 1
    two = 2


class Flag(enum.Flag):
    r = 1
    w = 2
    x = 4


# ---- dataclasses ---------------------------------------------------------------------------------
@dataclass
class Point:
    x: int = 0
    y: float = 1.0


@dataclass
class Inner:
    name: str = "n"
    tags: List[str] = field(default_factory=list)
    color: Color = Color.red


@dataclass
class Outer:
    inner: Inner = field(default_factory=Inner)
    count: Optional[int] = None
    pt: Point = field(default_factory=Point)
    ratio: float = 0.5
    limit: Optional[float] = 30.0  # optional with a non-null default: an explicit null is a setting of its own


@dataclass
class Req:
    need: int
    opt: str = "o"


# ---- class families ------------------------------------------------------------------------------
class Base:
    def __init__(self, a: int = 1):
        self.a = a
        rec(self, a=a)

    def describe(self):
        return type(self).__name__


class SubA(Base):
    def __init__(self, a: int = 2, b: str = "x"):
        self.a, self.b = a, b
        rec(self, a=a, b=b)


class SubB(Base):
    def __init__(self, c: float = 0.5, flag: bool = False, **kwargs):
        super().__init__(**kwargs)
        self.c, self.flag = c, flag
        rec(self, c=c, flag=flag, **kwargs)


class SubReq(Base):
    def __init__(self, need: int, a: int = 3):
        self.need, self.a = need, a
        rec(self, need=need, a=a)


class SubList(Base):
    def __init__(self, items: Optional[List[int]] = None, t: Tuple[int, str] = (1, "a")):
        self.items, self.t = items, t
        rec(self, items=items, t=t)


class HolderLazy:
    """a class whose class-typed parameter has a default spec with init_args (used as a class group)"""

    def __init__(self, child: Base = lazy_instance(SubA, a=5, b="lz"), n: int = 0):
        self.child, self.n = child, n
        rec(self, child=child, n=n)


class WithOptDC(Base):
    """a class with an optional dataclass parameter (its nested fields are options of their own)"""

    def __init__(self, d: Optional[Point] = None, a: int = 1):
        self.d, self.a = d, a
        rec(self, d=d, a=a)


class Unrelated:
    def __init__(self, z: int = 0):
        self.z = z
        rec(self, z=z)


class AbstractBase(abc.ABC):
    @abc.abstractmethod
    def run(self): ...


class Concrete(AbstractBase):
    def __init__(self, k: int = 5):
        self.k = k
        rec(self, k=k)

    def run(self):
        return self.k


class Holder:
    def __init__(self, child: Base, n: int = 0):
        self.child, self.n = child, n
        rec(self, child=child, n=n)


class HolderOpt:
    def __init__(self, child: Optional[Base] = None, many: Optional[List[Base]] = None, m: Optional[Dict[str, Base]] = None):
        self.child, self.many, self.m = child, many, m
        rec(self, child=child, many=many, m=m)


class WithDictKwargs(Base):
    def __init__(self, a: int = 1, **kwargs: Any):
        self.a, self.kwargs = a, kwargs
        rec(self, a=a, **kwargs)


class KwOnly(Base):
    """accepts only **kwargs: a spec for it has dict_kwargs and no init_args"""

    def __init__(self, **kwargs: Any):
        self.kwargs = kwargs
        rec(self, **kwargs)


class BadDefault(Base):
    """default does not match its annotation: selecting this class fails while its defaults are added"""

    def __init__(self, lr: int = 0.5, shape: Tuple[int, int] = (3, 3, 3)):  # type: ignore[assignment]
        self.lr = lr
        rec(self, lr=lr)


def make_base(a: int = 9) -> Base:
    return SubA(a=a, b="made")


def not_a_class():
    return 1


BASE_FAMILY = [Base, SubA, SubB, SubReq, SubList, WithDictKwargs, KwOnly]
