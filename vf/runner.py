"""Parent process of a check: shards the workload into worker subprocesses, merges what the monitors
recorded, classifies violations against known_findings.json, evaluates the adequacy gates, writes the
evidence file and decides the three-valued verdict (exit 0 held / 1 violated / 2 inconclusive).

The parent never imports jsonargparse; everything that touches the library runs in the workers, which
import it from the repository's *current working tree* (VF_REPO_DIR, default /repo)."""

from __future__ import annotations

import argparse
import concurrent.futures
import fnmatch
import json
import os
import shutil
import subprocess
import sys
import time
from collections import Counter, defaultdict

HERE = os.path.dirname(os.path.dirname(os.path.abspath(__file__)))
PY = "/venv/bin/python"


def load_meta(prop):
    from vf.checks import meta

    return meta.META[prop]


def worker_env(repo_dir, scratch):
    env = {k: v for k, v in os.environ.items() if not k.startswith("JSONARGPARSE_")}
    for k in ("COLUMNS", "LINES", "PYTHONSTARTUP", "PYTHONINSPECT"):
        env.pop(k, None)
    env.update(
        PYTHONHASHSEED="0",
        PYTHONPATH=os.pathsep.join([repo_dir, HERE, os.path.join(HERE, ".deps")]),
        PYTHONDONTWRITEBYTECODE="1",
        COLUMNS="200",
        HOME=scratch,
        JSONARGPARSE_VERIF="1",  # reserved guard (MANIFEST.hooks.guard); the repository has no hooks
        VF_REPO_DIR=repo_dir,
        VF_HOME=HERE,
        LC_ALL="C.UTF-8",
        PYTHONIOENCODING="utf-8",
    )
    return env


def run_shard(prop, shard, nshards, tier, seed, scratch, repo_dir, budget, timeout, replay=None):
    out = os.path.join(scratch, f"shard{shard}.jsonl")
    wdir = os.path.join(scratch, f"w{shard}")
    os.makedirs(wdir, exist_ok=True)
    cmd = [PY, "-X", "faulthandler", "-m", "vf.worker", prop, str(shard), str(nshards), tier, str(seed), out, str(budget)]
    if replay:
        cmd += ["--replay", replay]
    t0 = time.time()
    try:
        p = subprocess.run(
            cmd,
            cwd=wdir,
            env=worker_env(repo_dir, wdir),
            stdin=subprocess.DEVNULL,
            stdout=subprocess.PIPE,
            stderr=subprocess.PIPE,
            timeout=timeout,
        )
        rc, err, so = p.returncode, p.stderr.decode("utf-8", "replace"), p.stdout.decode("utf-8", "replace")
    except subprocess.TimeoutExpired as ex:
        rc, err, so = -999, (ex.stderr or b"").decode("utf-8", "replace") + "\n[watchdog: worker timeout]", ""
    return dict(shard=shard, rc=rc, stderr=err[-4000:], stdout=so[-2000:], out=out, wall=time.time() - t0)


def read_records(path):
    recs = []
    if not os.path.exists(path):
        return recs
    with open(path, encoding="utf-8") as f:
        for line in f:
            line = line.strip()
            if not line:
                continue
            try:
                recs.append(json.loads(line))
            except ValueError:
                pass  # truncated last line of a killed worker
    return recs


def load_known(prop):
    path = os.path.join(HERE, "known_findings.json")
    if not os.path.exists(path):
        return []
    with open(path) as f:
        data = json.load(f)
    return [e for e in data.get("findings", []) if e.get("property") == prop]


def classify(v, known):
    for e in known:
        if e.get("status") != "known":
            continue  # "fixed" entries suppress nothing
        if e.get("monitor") not in (None, "*", v.get("monitor")) :
            continue
        if fnmatch.fnmatchcase(v.get("signature", ""), e.get("signature", "\0")):
            return e
    return None


def main(argv=None):
    ap = argparse.ArgumentParser(prog="check")
    ap.add_argument("prop")
    ap.add_argument("--tier", default=os.environ.get("VERIF_TIER") or "quick", choices=["quick", "thorough"])
    ap.add_argument("--replay")
    ap.add_argument("--shards", type=int)
    ap.add_argument("--jobs", type=int)
    ap.add_argument("--budget", type=float, help="seconds of workload generation per shard")
    ap.add_argument("--keep", action="store_true")
    a = ap.parse_args(argv)
    prop = a.prop.upper()
    meta = load_meta(prop)
    try:
        seed = int(os.environ.get("VERIF_SEED", "0") or 0)
    except ValueError:
        seed = 0
    repo_dir = os.environ.get("VF_REPO_DIR", "/repo")
    tier = a.tier
    t0 = time.time()
    scratch = os.path.join(HERE, ".work", f"{prop}-{os.getpid()}")
    shutil.rmtree(scratch, ignore_errors=True)
    os.makedirs(scratch)
    os.makedirs(os.path.join(HERE, "replays"), exist_ok=True)
    os.makedirs(os.path.join(HERE, "evidence"), exist_ok=True)

    replay_spec = None
    if a.replay:
        a.replay = os.path.abspath(a.replay)  # the workers run in a scratch directory
        with open(a.replay) as f:
            replay_spec = json.load(f)
        tier = replay_spec.get("tier", tier)
        seed = replay_spec.get("seed", seed)
        nshards = replay_spec.get("nshards", 1)
        shards = [replay_spec.get("shard", 0)]
    else:
        nshards = a.shards or meta["shards"][tier]
        shards = list(range(nshards))
    budget = a.budget or meta["budget"][tier]
    jobs = a.jobs or (min(16, os.cpu_count() or 4) if tier == "thorough" else min(max(4, nshards), os.cpu_count() or 4))
    timeout = budget * 4 + 300

    counters = Counter()
    distinct = set()
    violations = []
    observations = defaultdict(list)
    obs_count = Counter()
    inconclusive = []
    samples = []
    mech = defaultdict(lambda: [set(), 0])
    extra = {}

    def run_round(shard_ids, topup):
        results = []
        with concurrent.futures.ThreadPoolExecutor(max_workers=jobs) as ex:
            futs = [
                ex.submit(run_shard, prop, s, nshards, tier, seed, scratch, repo_dir, budget, timeout, a.replay)
                for s in shard_ids
            ]
            for f in futs:
                results.append(f.result())
        for r in results:
            recs = read_records(r["out"])
            done = False
            for rec in recs:
                t = rec.get("t")
                if t == "counters":
                    counters.update(rec["c"])
                elif t == "distinct":
                    distinct.update(rec["k"])
                elif t == "violation":
                    rec["shard"] = r["shard"]
                    violations.append(rec)
                elif t == "observation":
                    obs_count[rec["name"]] += rec.get("n", 1)
                    if len(observations[rec["name"]]) < 5 and rec.get("detail") is not None:
                        observations[rec["name"]].append(rec["detail"])
                elif t == "inconclusive":
                    inconclusive.append(rec["reason"])
                elif t == "sample":
                    if len(samples) < 12:
                        samples.append(rec["s"])
                elif t == "mech":
                    for fn, d in rec["m"].items():
                        mech[fn][0] |= set(d["hit"])
                        mech[fn][1] = max(mech[fn][1], d["total"])
                elif t == "extra" and not topup:  # exhaustiveness flags etc. describe the regular shards only
                    for k, v in rec["x"].items():
                        if isinstance(v, (int, float)) and isinstance(extra.get(k), (int, float)):
                            extra[k] += v
                        elif isinstance(v, list) and isinstance(extra.get(k), list):
                            extra[k] = sorted(set(map(json.dumps, extra[k])) | set(map(json.dumps, v)))
                            extra[k] = [json.loads(x) for x in extra[k]]
                        elif isinstance(v, bool) and isinstance(extra.get(k), bool):
                            extra[k] = extra[k] and v
                        else:
                            extra.setdefault(k, v)
                elif t == "done":
                    done = True
            if not done:
                inconclusive.append(
                    f"worker shard {r['shard']} ended without completing (rc={r['rc']}): " + r["stderr"][-1500:].replace("\n", " | ")
                )

    def gate_shortfalls():
        out = []
        for name, need in meta.get("gates", {}).items():
            n = need[tier] if isinstance(need, dict) else need
            if counters.get(name, 0) < n:
                out.append(name)
        return out

    run_round(shards, topup=False)
    # Top-up rounds: the workloads are bounded by wall-clock deadlines, so on a loaded machine a run can end short of an
    # adequacy gate although nothing is wrong.  When that is the *only* thing between the run and a verdict (no unlisted violation
    # recorded, no worker failure), further shards with fresh shard numbers (hence fresh random streams; they take no part in
    # the exhaustive enumerations, which are partitioned over the regular shards) are run and merged, at most twice.
    topup_rounds = 0
    known_now = load_known(prop)
    while (not replay_spec and not any(classify(v, known_now) is None for v in violations) and not inconclusive and gate_shortfalls() and topup_rounds < 2):
        topup_rounds += 1
        extra.setdefault("topup_after_short_gates", []).append({g_: int(counters.get(g_, 0)) for g_ in gate_shortfalls()})
        run_round([nshards * topup_rounds + s for s in shards], topup=True)
    if topup_rounds:
        counters["topup_rounds_after_gate_shortfall"] = topup_rounds

    known = load_known(prop)
    known_hit = Counter()
    known_entry = {}
    unlisted = []
    for v in violations:
        e = classify(v, known)
        if e is not None:
            known_hit[e["id"]] += 1
            known_entry[e["id"]] = e
        else:
            unlisted.append(v)

    # adequacy gates (skipped in replay mode)
    gates = {}
    if not replay_spec:
        for name, need in meta.get("gates", {}).items():
            n = need[tier] if isinstance(need, dict) else need
            got = counters.get(name, 0)
            gates[name] = {"need": n, "got": got}
            if got < n:
                inconclusive.append(f"gate {name}: need {n}, observed {got}")

    # witnesses for unlisted violations (dedup by signature, keep first 10 files)
    replay_paths = []
    seen_sig = Counter()
    for v in unlisted:
        sig = (v.get("monitor"), v.get("signature"))
        seen_sig[sig] += 1
        if seen_sig[sig] > 1 or len(replay_paths) >= 10:
            continue
        path = os.path.join(HERE, "replays", f"{prop}-{seed}-{v['shard']}-{v.get('case', 0)}-{len(replay_paths)}.json")
        w = dict(
            property=prop, tier=tier, seed=seed, shard=v["shard"], nshards=nshards, case=v.get("case"),
            monitor=v.get("monitor"), signature=v.get("signature"), witness=v.get("witness"),
        )
        with open(path, "w") as f:
            json.dump(w, f, indent=1, default=str)
        replay_paths.append((path, v))

    wall = time.time() - t0
    evals = int(counters.get("evaluations", 0))
    coverage = dict(
        evaluations=evals,
        distinct_nontrivial=len(distinct),
        rule=meta["rule"],
        samples=samples[:8] if samples else [],
        monitor_evaluations={k[4:]: v for k, v in sorted(counters.items()) if k.startswith("mon.")},
        events={k[3:]: v for k, v in sorted(counters.items()) if k.startswith("ev.")},
        abstract_states={k[3:]: v for k, v in sorted(counters.items()) if k.startswith("st.")},
        other_counters={k: v for k, v in sorted(counters.items()) if not k.startswith(("mon.", "ev.", "st.")) and k != "evaluations"},
        mechanism_lines_observed={fn: f"{len(h)}/{t}" for fn, (h, t) in sorted(mech.items())},
        anchored_functions_never_entered=sorted(fn for fn, (h, t) in mech.items() if t and not h),
        gates=gates,
        observations_not_judged={k: {"count": obs_count[k], "examples": observations[k]} for k in sorted(obs_count)},
        known_findings_hit={k: known_hit[k] for k in sorted(known_hit)},
        unlisted_violation_signatures=[{"monitor": m, "signature": s, "count": c} for (m, s), c in seen_sig.items()],
        inconclusive=inconclusive[:10],
        shards=nshards,
        repo_dir=repo_dir,
    )
    coverage.update(extra)
    if meta.get("exhaustive_key") and extra.get(meta["exhaustive_key"]) is True and not replay_spec:
        coverage["exhaustive"] = True
    ev = dict(
        property_id=prop,
        tier=tier,
        seed=seed,
        level=meta["level"],
        coverage=coverage,
        assumptions=meta.get("assumptions", []),
        wall_s=round(wall, 2),
        violations=len(unlisted),
    )
    if not replay_spec and os.path.realpath(repo_dir) == "/repo":  # evidence only ever describes /repo itself
        with open(os.path.join(HERE, "evidence", f"{prop}.json"), "w") as f:
            json.dump(ev, f, indent=1, default=str)
            f.write("\n")

    for kid in sorted(known_hit):
        e = known_entry[kid]
        print(f"KNOWN-FINDING: property={prop} {e['what_fails']} [{kid}; seen {known_hit[kid]}x]")
    for path, v in replay_paths:
        print(f"VIOLATION property={prop} replay={path}")
        print(f"  monitor={v.get('monitor')} signature={v.get('signature')}")
    status = 0
    if unlisted:
        status = 1
    elif inconclusive:
        for r in inconclusive[:10]:
            print(f"INCONCLUSIVE property={prop} reason={r}")
        status = 2
    verdict = {0: "held on what was observed", 1: "VIOLATED", 2: "inconclusive"}[status]
    print(
        f"{prop} [{tier} seed={seed}] {verdict}: evaluations={evals} distinct={len(distinct)} "
        f"unlisted_violations={len(unlisted)} known_hits={sum(known_hit.values())} wall={wall:.1f}s"
    )
    if not a.keep:
        shutil.rmtree(scratch, ignore_errors=True)
    return status


if __name__ == "__main__":
    sys.exit(main())
