"""vf — runtime-monitoring machinery for the jsonargparse properties C01..C20 (see /verif/DESIGN.md)."""
