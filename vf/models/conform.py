"""Independent structural validator: does a Python value conform to a type-hint node (vf.gen.types.T)?

Written from the typing semantics the property statement names (right Python type at every nesting
level, tuple arity, Literal/Enum membership, restricted-type predicate), not from adapt_typehints.
strict(value, t) -> None when conforming, else (path, reason)."""

from __future__ import annotations

import datetime
import decimal
import enum
import operator
import pathlib
import re
import uuid

from jsonargparse import Namespace
from jsonargparse._util import Path as JPath

OPS = {">": operator.gt, ">=": operator.ge, "<": operator.lt, "<=": operator.le, "==": operator.eq, "!=": operator.ne}

REG_PY = {
    "complex": complex,
    "Decimal": decimal.Decimal,
    "UUID": uuid.UUID,
    "timedelta": datetime.timedelta,
    "bytes": bytes,
    "bytearray": bytearray,
    "range": range,
    "pathlib": pathlib.PurePath,
}


_PLAIN_OK = [False]


def input_conforms(v, t):
    """like strict(), for *inputs*: a plain int/float/str that satisfies a restricted type's predicate is a conforming
    input (the parser casts it); used when the type's own cast refused to build the instance"""
    _PLAIN_OK[0] = True
    try:
        return strict(v, t)
    finally:
        _PLAIN_OK[0] = False


def strict(v, t, path="", exact=False):
    """exact=True: leaf values must be of exactly the hinted class (used to decide which Union member owns a value)."""
    k = t.kind
    if k == "any":
        return None
    if k == "str":
        return None if (type(v) is str if exact else isinstance(v, str)) else (path, f"expected str, got {type(v).__name__}")
    if k == "int":
        return None if (type(v) is int if exact else (isinstance(v, int) and not isinstance(v, bool))) else (path, f"expected int, got {type(v).__name__}")
    if k == "float":
        return None if (type(v) is float if exact else isinstance(v, float)) else (path, f"expected float, got {type(v).__name__}")
    if k == "bool":
        return None if isinstance(v, bool) else (path, f"expected bool, got {type(v).__name__}")
    if k == "enum":
        return None if isinstance(v, t.extra) else (path, f"expected member of {t.extra.__name__}, got {type(v).__name__}")
    if k == "literal":
        for m in t.extra:
            if type(m) is type(v) and m == v:
                return None
        return (path, f"not a member of Literal{t.extra}: {v!r} ({type(v).__name__})")
    if k == "rnum":
        base, rs, join = t.extra
        if isinstance(v, bool) or not (isinstance(v, t.hint) or (_PLAIN_OK[0] and isinstance(v, base))):
            return (path, f"expected {t.hint.__name__}, got {type(v).__name__}")
        checks = [OPS[o](v, ref) for o, ref in rs]
        ok = all(checks) if join == "and" else any(checks)
        return None if ok else (path, f"restriction violated by {v!r}")
    if k == "rstr":
        if not (isinstance(v, t.hint) or (_PLAIN_OK[0] and isinstance(v, str))):
            return (path, f"expected {t.hint.__name__}, got {type(v).__name__}")
        return None if re.match(t.extra, v) else (path, f"pattern violated by {v!r}")
    if k == "reg":
        if t.extra == "secret":
            from jsonargparse.typing import SecretStr

            return None if isinstance(v, SecretStr) else (path, f"expected SecretStr, got {type(v).__name__}")
        py = REG_PY[t.extra]
        if t.extra == "bytes" and isinstance(v, bytearray):
            return (path, "expected bytes, got bytearray")
        return None if isinstance(v, py) else (path, f"expected {py.__name__}, got {type(v).__name__}")
    if k == "path":
        return None if isinstance(v, JPath) else (path, f"expected Path, got {type(v).__name__}")
    if k == "optional":
        return None if v is None else strict(v, t.children[0], path, exact)
    if k == "union":
        rs = []
        for c in t.children:
            r = strict(v, c, path, exact)
            if r is None:
                return None
            rs.append(r)
        # report the reason of the member that came closest: deepest location, key-type reasons first
        best = max(rs, key=lambda r: (r[0].count(".") + r[0].count("[") + r[0].count("("), "key" in r[1]))
        if best[0] != path:
            return best
        return (path, f"no Union member accepts {type(v).__name__}: " + "; ".join(r[1] for r in rs)[:300])
    if k == "list":
        if not isinstance(v, list):
            return (path, f"expected list, got {type(v).__name__}")
        for i, x in enumerate(v):
            r = strict(x, t.children[0], f"{path}[{i}]", exact)
            if r:
                return r
        return None
    if k == "dict":
        if not isinstance(v, dict):
            return (path, f"expected dict, got {type(v).__name__}")
        for kk, x in v.items():
            if t.extra is int and (not isinstance(kk, int) or isinstance(kk, bool)):
                return (f"{path}.<key>", f"expected int key, got {type(kk).__name__}")
            if t.extra is str and not isinstance(kk, str):
                return (f"{path}.<key>", f"expected str key, got {type(kk).__name__}")
            r = strict(x, t.children[0], f"{path}.{kk}", exact)
            if r:
                return r
        return None
    if k == "tuple":
        if not isinstance(v, tuple):
            return (path, f"expected tuple, got {type(v).__name__}")
        if len(v) != len(t.children):
            return (path, f"expected tuple of {len(t.children)}, got {len(v)}")
        for i, (x, c) in enumerate(zip(v, t.children)):
            r = strict(x, c, f"{path}({i})", exact)
            if r:
                return r
        return None
    if k == "vtuple":
        if not isinstance(v, tuple):
            return (path, f"expected tuple, got {type(v).__name__}")
        for i, x in enumerate(v):
            r = strict(x, t.children[0], f"{path}({i})", exact)
            if r:
                return r
        return None
    if k == "set":
        want = frozenset if t.extra == "frozen" else set
        if not isinstance(v, want):
            return (path, f"expected {want.__name__}, got {type(v).__name__}")
        for x in v:
            r = strict(x, t.children[0], f"{path}{{}}", exact)
            if r:
                return r
        return None
    if k == "dataclass":
        import dataclasses

        if isinstance(v, t.extra):
            return None
        if isinstance(v, Namespace):
            v = vars(v)
        if not isinstance(v, dict):
            return (path, f"expected fields of {t.extra.__name__}, got {type(v).__name__}")
        names = {f.name for f in dataclasses.fields(t.extra)}
        extra = set(v) - names
        if extra:
            return (path, f"foreign fields {sorted(extra)}")
        from vf.gen.types import DATACLASS_FIELD_T

        ft = DATACLASS_FIELD_T.get(t.extra, {})
        for name, x in v.items():
            if name in ft:
                if x is None:
                    continue  # the property speaks about non-null values: a null field is "not given" (sessions log: '? x')
                r = strict(x, ft[name], f"{path}.{name}", exact)
                if r:
                    return r
        return None
    if k == "class":
        if isinstance(v, t.extra):
            return None
        if isinstance(v, Namespace):
            v = vars(v)
        if not isinstance(v, dict) or "class_path" not in v:
            return (path, f"expected class spec or instance of {t.extra.__name__}, got {type(v).__name__}")
        from jsonargparse._util import import_object

        try:
            obj = import_object(v["class_path"])
        except Exception as ex:
            return (path, f"class_path not importable: {ex}")
        if isinstance(obj, type) and issubclass(obj, t.extra):
            return None
        if callable(obj) and not isinstance(obj, type):
            return None  # callable returning the class: C14 looks closer
        return (path, f"class_path {v['class_path']} is not a subclass of {t.extra.__name__}")
    raise AssertionError(k)
