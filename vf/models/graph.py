"""Independent graph oracle for C16: cycle test (iterative DFS colouring) and order validation."""


def has_cycle(nodes, edges):
    adj = {n: [] for n in nodes}
    for a, b in edges:
        adj[a].append(b)
    WHITE, GREY, BLACK = 0, 1, 2
    col = {n: WHITE for n in nodes}
    for s in nodes:
        if col[s] != WHITE:
            continue
        stack = [(s, iter(adj[s]))]
        col[s] = GREY
        while stack:
            n, it = stack[-1]
            for t in it:
                if col[t] == GREY:
                    return True
                if col[t] == WHITE:
                    col[t] = GREY
                    stack.append((t, iter(adj[t])))
                    break
            else:
                col[n] = BLACK
                stack.pop()
    return False


def order_ok(nodes, edges, order):
    """order must be a permutation of nodes in which every edge goes forward."""
    if sorted(order) != sorted(nodes) or len(set(order)) != len(order):
        return "not a permutation of the nodes"
    pos = {n: i for i, n in enumerate(order)}
    for a, b in edges:
        if pos[a] >= pos[b]:
            return f"edge {a}->{b} goes backwards"
    return None
