"""Reference model for C04: the final configuration is a left fold over the sources.

fold(defaults, sources) with sources = [[(key, kind, value[, item]), ...], ...] in precedence order.
kind: 'plain' replaces (also whole lists and dicts); 'append' appends to the list built so far (a scalar
appends one element, a list extends; a scalar value so far counts as a one-element list); 'dictitem' sets one item in the dict built so far."""

import copy


def fold(defaults, sources):
    state = copy.deepcopy(defaults)
    for assigns in sources:
        for a in assigns:
            key, kind, val = a[0], a[1], a[2]
            if kind == "plain":
                state[key] = copy.deepcopy(val)
            elif kind == "append":
                cur = state.get(key)
                # a scalar written through the scalar member of Union[T, List[T]] is the one-element list built so far
                cur = list(cur) if isinstance(cur, list) else ([] if cur is None or isinstance(cur, dict) else [cur])
                state[key] = cur + (list(val) if isinstance(val, list) else [val])
            elif kind == "dictitem":
                cur = dict(state[key]) if isinstance(state.get(key), dict) else {}
                cur[a[3]] = val
                state[key] = cur
            else:
                raise AssertionError(kind)
    return state
