"""Reference model for C11: 'the nested dictionary a Namespace stands for'.

Branches are instances of B (a dict subclass) so that dict-valued *leaves* stay opaque values.
Every mutator returns a (kind, value) pair describing what a user must observe:
  ("ok", v)      the operation succeeds, returning v (None where nothing is returned)
  ("raise", T)   the operation is not defined on a nested dict -> must raise (T = KeyError where the API
                 promises it, else None = type not judged) and leave the state unchanged
  ("unspec", _)  the key addresses *through* a dict-valued leaf: layer L2's business, not judged here
"""

from __future__ import annotations

UNSPEC = ("unspec", None)


class B(dict):
    """A branch of the model."""


def valid_key(key):
    return isinstance(key, str) and " " not in key and all(s != "" for s in key.split("."))


class Model:
    def __init__(self, root=None):
        self.root = root if root is not None else B()

    # -- helpers --------------------------------------------------------------------------------
    def _walk(self, key):
        """-> (parent_branch | None | 'dict', leaf). None: prefix missing or through a non-branch leaf."""
        parts = key.split(".")
        cur = self.root
        for p in parts[:-1]:
            if isinstance(cur, B) and p in cur:
                cur = cur[p]
                if isinstance(cur, dict) and not isinstance(cur, B):
                    return "dict", parts[-1]
                if not isinstance(cur, B):
                    return None, parts[-1]
            else:
                return None, parts[-1]
        return cur, parts[-1]

    def copy(self):
        return Model(copy_branch(self.root))

    # -- observers ------------------------------------------------------------------------------
    def contains(self, key):
        if not valid_key(key):
            return ("ok", False)
        par, leaf = self._walk(key)
        if par == "dict":
            return UNSPEC
        return ("ok", par is not None and leaf in par)

    def getitem(self, key):
        if not valid_key(key):
            return ("raise", KeyError)
        par, leaf = self._walk(key)
        if par == "dict":
            return UNSPEC
        if par is None or leaf not in par:
            return ("raise", KeyError)
        return ("ok", par[leaf])

    def get(self, key, default):
        r = self.getitem(key)
        if r[0] == "raise":
            return ("ok", default)
        return r

    def leaves(self, branches=False):
        out = []

        def rec(b, prefix):
            for k, v in b.items():
                if isinstance(v, B):
                    if branches:
                        out.append((prefix + k, v))
                    rec(v, prefix + k + ".")
                else:
                    out.append((prefix + k, v))

        rec(self.root, "")
        return out

    def all_paths(self):
        return [k for k, _ in self.leaves(branches=True)]

    def as_dict(self):
        return to_plain(self.root)

    def has_dict_leaf(self):
        return any(isinstance(v, dict) for _, v in self.leaves())

    # -- mutators -------------------------------------------------------------------------------
    def setitem(self, key, value):
        if not valid_key(key):
            return ("raise", KeyError)
        parts = key.split(".")
        # first pass: would we walk through a dict leaf?
        cur = self.root
        for p in parts[:-1]:
            if isinstance(cur, B) and p in cur and isinstance(cur[p], B):
                cur = cur[p]
            elif isinstance(cur, B) and p in cur and isinstance(cur[p], dict):
                return UNSPEC
            else:
                break
        cur = self.root
        for p in parts[:-1]:
            if not (p in cur and isinstance(cur[p], B)):
                cur[p] = B()  # creates intermediate branches, replaces a non-branch
            cur = cur[p]
        cur[parts[-1]] = value
        return ("ok", None)

    def delitem(self, key):
        if not valid_key(key):
            return ("raise", None)
        par, leaf = self._walk(key)
        if par == "dict":
            return UNSPEC
        if par is None or leaf not in par:
            return ("raise", KeyError)  # like a mapping: deleting what is not there is a KeyError, at any depth
        del par[leaf]
        return ("ok", None)

    def pop(self, key, default):
        if not valid_key(key):
            return ("raise", None)
        par, leaf = self._walk(key)
        if par == "dict":
            return UNSPEC
        if par is None or leaf not in par:
            return ("ok", default)
        return ("ok", par.pop(leaf))

    def update_ns(self, value_branch, key, only_unset):
        """value_branch: a B tree (the namespace given). Sets leaf by leaf under key."""
        prefix = key + "." if key else ""
        leaves = Model(value_branch).leaves()
        if key is not None and key != "" and not valid_key(key):
            return ("raise", KeyError) if leaves else ("ok", "self")
        # dry run for unspec
        probe = self.copy()
        for k, v in leaves:
            if only_unset:
                c = probe.contains(prefix + k)
                if c == UNSPEC:
                    return UNSPEC
                if c[1]:
                    continue
            if probe.setitem(prefix + k, v) == UNSPEC:
                return UNSPEC
        self.root = probe.root
        return ("ok", "self")

    def update_value(self, value, key, only_unset):
        if not key:
            return ("raise", KeyError)
        if not valid_key(key):
            return ("raise", KeyError) if not only_unset else ("raise", KeyError)
        if only_unset:
            c = self.contains(key)
            if c == UNSPEC:
                return UNSPEC
            if c[1]:
                return ("ok", "self")
        r = self.setitem(key, value)
        if r[0] != "ok":
            return r
        return ("ok", "self")


def copy_branch(b):
    out = B()
    for k, v in b.items():
        out[k] = copy_branch(v) if isinstance(v, B) else v
    return out


def to_plain(b):
    return {k: to_plain(v) if isinstance(v, B) else v for k, v in b.items()}
