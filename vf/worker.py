"""Worker process: imports jsonargparse from the repository working tree, installs the probes the check
asks for, runs the generated cases and streams what the monitors recorded as JSONL."""

from __future__ import annotations

import faulthandler
import hashlib
import importlib
import json
import os
import random
import sys
import time
import traceback
from collections import Counter


class Ctx:
    def __init__(self, prop, shard, nshards, tier, seed, out, budget, replay=None):
        self.prop, self.shard, self.nshards, self.tier, self.seed = prop, shard, nshards, tier, seed
        self.budget = budget
        self.t0 = time.time()
        self.deadline = self.t0 + budget
        self._out = open(out, "w", encoding="utf-8")
        self.counters = Counter()
        self._distinct = set()
        self._nsamples = 0
        self._obs = Counter()
        self.replay = replay  # witness dict or None
        self.case_index = None
        self.workdir = os.getcwd()
        self.home = os.environ.get("VF_HOME", "/verif")
        self.repo_dir = os.environ.get("VF_REPO_DIR", "/repo")
        self._nviol = Counter()

    # -- generation -----------------------------------------------------------------------------
    def case_rng(self, i, salt=""):
        return random.Random(f"{self.prop}:{self.seed}:{self.shard}:{i}:{salt}")

    def cases(self, n=None):
        """Yields (index, rng). One rng per case (derived from seed/shard/index) so that a case can be
        replayed alone. Stops at n cases or at the generation deadline."""
        if self.replay is not None and self.replay.get("case") is not None:
            i = self.replay["case"]
            self.case_index = i
            yield i, self.case_rng(i)
            return
        i = 0
        while (n is None or i < n) and time.time() < self.deadline:
            self.case_index = i
            yield i, self.case_rng(i)
            i += 1
        if n is not None and i < n:
            self.count("cases_not_generated_deadline", n - i)
        self.case_index = None

    def time_left(self):
        return self.deadline - time.time()

    # -- recording ------------------------------------------------------------------------------
    def _emit(self, rec):
        self._out.write(json.dumps(rec, default=_default) + "\n")

    def count(self, name, n=1):
        self.counters[name] += n

    def evaluation(self, key=None, n=1):
        """One monitored execution; `key` is the abstract case (hashed for distinct counting)."""
        self.counters["evaluations"] += n
        if key is not None:
            self.distinct(key)

    def distinct(self, key):
        if not isinstance(key, str):
            key = json.dumps(key, default=_default, sort_keys=True)
        self._distinct.add(hashlib.md5(key.encode("utf-8", "replace")).hexdigest()[:12])

    def sample(self, s, limit=4):
        if self._nsamples < limit:
            self._nsamples += 1
            self._emit({"t": "sample", "s": s})

    def observe(self, name, detail=None):
        """Something seen that the property statement does not let us judge: logged, never a verdict."""
        self._obs[name] += 1
        if self._obs[name] <= 3:
            self._emit({"t": "observation", "name": name, "detail": detail})
        else:
            self.counters["obs." + name] += 0  # detail dropped; count flushed at the end

    def violation(self, monitor, signature, witness):
        self._nviol[(monitor, signature)] += 1
        self.counters["violations_recorded"] += 1
        if self._nviol[(monitor, signature)] > 3:
            witness = None  # keep the log small; the count still goes through
        self._emit({"t": "violation", "monitor": monitor, "signature": signature, "case": self.case_index, "witness": witness})
        self._out.flush()

    def inconclusive(self, reason):
        self._emit({"t": "inconclusive", "reason": reason})

    def extra(self, **kw):
        self._emit({"t": "extra", "x": kw})

    def mech(self, m):
        self._emit({"t": "mech", "m": m})

    def finish(self):
        for name, n in self._obs.items():
            if n > 3:
                self._emit({"t": "observation", "name": name, "n": n - 3, "detail": None})
        self._emit({"t": "counters", "c": dict(self.counters)})
        self._emit({"t": "distinct", "k": sorted(self._distinct)})
        self._emit({"t": "done", "wall": time.time() - self.t0})
        self._out.flush()
        self._out.close()


def _default(o):
    try:
        return repr(o)
    except Exception:
        return f"<unreprable {type(o).__name__}>"


def main():
    prop, shard, nshards, tier, seed, out, budget = sys.argv[1:8]
    replay = None
    if "--replay" in sys.argv:
        with open(sys.argv[sys.argv.index("--replay") + 1]) as f:
            replay = json.load(f)
    faulthandler.enable()
    # generous wall-clock watchdog: firing is "inconclusive" (the parent sees no done record)
    faulthandler.dump_traceback_later(float(budget) * 4 + 240, exit=True)
    ctx = Ctx(prop, int(shard), int(nshards), tier, int(seed), out, float(budget), replay)
    mod = importlib.import_module(f"vf.checks.{prop.lower()}")
    from vf.rt.mechcov import MechCov

    cov = MechCov(prop)
    try:
        cov.start()
    except Exception as ex:  # observer unavailable: evidence says so, verdicts do not depend on it
        ctx.extra(mechanism_observer_error=f"{type(ex).__name__}: {ex}")
    try:
        mod.run_shard(ctx)
    except BaseException as ex:  # harness failure, not a verdict about the library
        ctx.inconclusive(f"worker exception {type(ex).__name__}: {ex} :: " + traceback.format_exc()[-1500:])
    try:
        ctx.mech(cov.report())
    except Exception as ex:
        ctx.extra(mechanism_observer_error=f"{type(ex).__name__}: {ex}")
    ctx.finish()
    sys.stdout.flush()
    os._exit(0)


if __name__ == "__main__":
    main()
