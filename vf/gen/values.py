"""Hostile scalars: strings a YAML/JSON reader could take for something else. Each carries a lexical
*class* so that findings are keyed by mechanism, never by value."""

from __future__ import annotations

HOSTILE = {
    "sci-float-without-dot": ["1e3", "1E3", "+1e3", "1e+3", "1e-3", "-2E5", "12e03"],
    "float-like": ["1.e3", ".5", "1.", "-.5", "1.5", "0.0", "1_000.5", "+1.0"],
    "float-lookalike-without-digit": ["._", ".__", "._e+1", "1._", "._1"],
    "int-like": ["1", "0", "-1", "+1", "-0", "007", "1_000", "123456789012345678901234567890"],
    "radix-int": ["0x1F", "0o7", "010", "0b11", "0X1f"],
    "sexagesimal": ["1:30", "190:20:30.15", "1:2:3", "-1:30"],
    "inf-nan": [".inf", "-.INF", ".nan", ".NaN", "inf", "nan", "Infinity", "-Infinity", "NaN", "+.inf"],
    "bool-word": ["yes", "No", "ON", "off", "y", "n", "true", "True", "TRUE", "false", "False", "Y", "N"],
    "null-word": ["~", "null", "Null", "NULL", "None", "none"],
    "date": ["2001-12-14", "2001-12-14t21:59:43.10-05:00", "2002-12-14 21:59:43.10 -5", "2001-1-1", "12:30:00"],
    "yaml-seq": ["- x", "[1]", "[1, 2]", "[]", "[a", "- "],
    "yaml-map": ["a: b", "{a: 1}", "{}", "{a}", "key:", "a: b: c", "? x", "{a: 1", "a:"],
    "yaml-indicator": ["#c", "a #c", "&a", "*a", "!!x", "!t v", "|", ">", "%", "@", "`", "?", "-", "--", "<<", "=", "&a x", "* ", "!", ", ", "]", "}", ": ", "- - x"],
    "quote": ['"', "'", '"a"', "'a'", 'a"b', "a'b", '"a', "it's", '\\"', "\\", "a\\nb", '"\\u0041"'],
    "blank": [" a", "a ", " ", "  a  ", "\ta", "a\t"],
    "empty": [""],
    "multiline": ["a\nb", "a\n", "\na", "a\r\nb", "a\n\nb", "a\n b", "a:\n  b"],
    "unicode-break": ["a\x85b", "a\u2028b", "a\u2029b", "\ufeffa", "a\u00a0b", "\x85"],
    "unicode": ["\U0001f600", "é", "日本語", "a\u0301", "\u200b", "\u200bitems"],
    "control": ["a\x00b", "\x1b[0m", "a\x07"],
    "long": ["x" * 300, "word " * 60, "a" * 81, ("ab " * 40).strip()],
    "import-path": ["os.path", "calendar.Calendar", "vf.fixtures.zoo.Base", "json"],
    "option-like": ["--x", "-x", "-1x", "--", "--cfg"],
    "percent-env": ["%s", "%(x)s", "$HOME", "~/x", "~"],
    "json-literal": ["{\"a\": 1}", "[1, \"a\"]", "\"quoted\"", "1.0", "true", "null"],
    "class-spec-like": ["class_path", "init_args", "{class_path: x}"],
}

KEY_SAFE_CLASSES = [
    "sci-float-without-dot", "float-like", "float-lookalike-without-digit", "int-like", "radix-int", "sexagesimal", "inf-nan", "bool-word", "null-word", "date",
    "yaml-indicator", "quote", "blank", "unicode", "long", "percent-env",
]

_ALL = [(s, c) for c, ss in HOSTILE.items() for s in ss]


def hostile_string(rng, for_key=False, exclude=()):
    """-> (string, lexical class)"""
    while True:
        if for_key:
            c = rng.choice(KEY_SAFE_CLASSES)
            s = rng.choice(HOSTILE[c])
            if "." in s or " " in s or s == "" or "\n" in s:
                continue
        else:
            s, c = rng.choice(_ALL)
        if c in exclude:
            continue
        return s, c


def classify_string(s):
    """Lexical class of an arbitrary string (first matching class of the table, else by shape)."""
    for c, ss in HOSTILE.items():
        if s in ss:
            return c
    if s.strip() != s:
        return "blank"
    if "\n" in s:
        return "multiline"
    return "plain"


def all_hostile():
    return list(_ALL)
