"""Writes generated programs as real source files into a per-process package on sys.path (inspect.getsource
must work for the AST-based parameter resolver) and imports them."""

from __future__ import annotations

import importlib
import os
import sys

_PKG = {"dir": None, "n": 0}


def pkg_dir(workdir):
    if _PKG["dir"] is None:
        d = os.path.join(workdir, "genpkg")
        os.makedirs(d, exist_ok=True)
        sys.path.insert(0, d)
        _PKG["dir"] = d
    return _PKG["dir"]


def write_module(workdir, source, prefix="gm"):
    d = pkg_dir(workdir)
    _PKG["n"] += 1
    name = f"{prefix}_{os.getpid()}_{_PKG['n']}"
    path = os.path.join(d, name + ".py")
    with open(path, "w", encoding="utf-8") as f:
        f.write(source)
    importlib.invalidate_caches()
    mod = importlib.import_module(name)
    return mod, path


def forget(mod, path):
    sys.modules.pop(mod.__name__, None)
    try:
        os.remove(path)
    except OSError:
        pass
