"""Parser shapes built from a spec by a deterministic builder, so that an identical fresh parser can be
rebuilt at will. A spec is a plain dict holding T nodes (vf.gen.types) and native default values.

spec = dict(
    args=[dict(name='g.k1', t=T, default=<native>|MISSING, required=bool)],
    cfg=bool,                 # adds --cfg ActionConfigFile
    mode='yaml'|'json'|..., # parser_mode
    env=bool, prog='app',
    sub=None | dict(required=bool, dest='subcommand', choices={name: spec}),
)
"""

from __future__ import annotations

import copy
import json

from jsonargparse import ActionConfigFile, ArgumentParser

from vf.gen import types as G

MISSING = object()
NAMES = ["alpha", "beta", "gamma", "delta", "eps", "zeta", "eta", "theta", "items", "keys", "name", "value", "n1", "x_y", "model", "model_ema", "alpha_2", "n"]
GROUPS = ["grp", "opt", "model", "data", "g2"]


def gen_spec(rng, nargs=(1, 5), depth=3, profile="noany", nested=0.4, cfg=True, mode="yaml", defaults=0.6, sub=0.0, env=False, hostile=0.25, _level=1):
    used = set()
    args = []
    for _ in range(rng.randrange(nargs[0], nargs[1] + 1)):
        name = rng.choice(NAMES)
        if rng.random() < nested:
            name = rng.choice(GROUPS) + "." + name
            if rng.random() < 0.2:
                name = rng.choice(GROUPS[:2]) + "." + name
        if name in used or any(u.startswith(name + ".") or name.startswith(u + ".") for u in used):
            continue
        used.add(name)
        t = gen_arg_type(rng, depth, profile)
        default = MISSING
        if rng.random() < defaults:
            d = G.conforming(rng, t, hostile=hostile / 2)
            if _usable_default(t, d):
                default = normalised_default(t, d)
        if t is G.CLASS_T and rng.random() < 0.5:
            from jsonargparse import lazy_instance

            from vf.fixtures import zoo

            default = rng.choice([lambda: lazy_instance(zoo.SubA, a=rng.randrange(9), b="lz"), lambda: lazy_instance(zoo.SubB, c=0.75), lambda: lazy_instance(zoo.SubList, items=[1, 2])])()
        args.append(dict(name=name, t=t, default=default, required=False))
    spec = dict(args=args, cfg=cfg, mode=mode, env=env, prog="app", sub=None)
    if sub and rng.random() < sub:
        choices = {}
        for sname in rng.sample(["fit", "test", "run", "a"], rng.choice([1, 2, 3])):
            # a subcommand may have no options at all (its section is then empty)
            # (a subcommand may have subcommands of its own: one more level, stored under the key "cmd")
            few = (0, 0) if _level == 2 and rng.random() < 0.4 else ((0, 3) if rng.random() < 0.3 else (1, 3))
            choices[sname] = gen_spec(rng, few, depth, profile, nested / 2, cfg=rng.random() < 0.3, mode=mode, defaults=defaults, sub=1.0 if _level == 1 and rng.random() < 0.3 else 0.0, hostile=hostile, _level=_level + 1)
        spec["sub"] = dict(required=rng.random() < 0.7, dest="subcommand" if _level == 1 else "cmd", choices=choices)
    return spec


def gen_arg_type(rng, depth, profile):
    t = G.gen_type(rng, rng.choice([1, 2, depth, depth]), "full" if profile == "noany" else profile)
    if profile == "noany":
        for _ in range(20):
            if not t.has("any"):
                break
            t = G.gen_type(rng, rng.choice([1, 2, depth]), "full")
        else:
            t = G.STR
    return t


_NP = {}


def normalised_default(t, d):
    """The default as the parser itself would return it when given this value (a user writes defaults in the form the
    parser produces: a fixed point), or MISSING when the parser does not take it."""
    key = t.skel + repr(t.hint)
    p = _NP.get(key)
    if p is None:
        if len(_NP) > 500:
            _NP.clear()
        p = _NP[key] = ArgumentParser(exit_on_error=False)
        p.add_argument("--k", type=t.hint)
    try:
        r = p.parse_object({"k": copy.deepcopy(plain_native(d))}).k
    except BaseException:
        return MISSING
    return r


def plain_native(v):
    if isinstance(v, list):
        return [plain_native(x) for x in v]
    if isinstance(v, tuple):
        return tuple(plain_native(x) for x in v)
    if isinstance(v, set):
        return {plain_native(x) for x in v}
    if isinstance(v, dict):
        return {k: plain_native(x) for k, x in v.items()}
    if isinstance(v, (int, float, str)) and hasattr(type(v), "_type") and hasattr(type(v), "_validation_fn"):
        return type(v)._type(v)
    return v


def _usable_default(t, d):
    from vf.models.conform import strict

    if d is None:
        return t.kind == "optional"
    if t.has("class", "dataclass"):
        return False  # class/dataclass defaults go through their own machinery (lazy_instance, default_factory)
    return strict(d, t) is None


def build(spec, exit_on_error=False, _defer_sub=False, **parser_kw):
    kw = dict(exit_on_error=exit_on_error, parser_mode=spec.get("mode", "yaml"), prog=spec.get("prog", "app"))
    if spec.get("env"):
        kw["default_env"] = True
    if spec.get("default_config_files"):
        kw["default_config_files"] = spec["default_config_files"]
    kw.update(parser_kw)
    p = ArgumentParser(**kw)
    if spec.get("cfg"):
        p.add_argument("--cfg", action=ActionConfigFile)
    for a in spec["args"]:
        akw = {"type": a["t"].hint}
        if a["default"] is not MISSING:
            akw["default"] = a["default"] if type(a["default"]).__name__.startswith("LazyInstance") else copy.deepcopy(a["default"])
        if a.get("required"):
            akw["required"] = True
        if a.get("enable_path"):
            akw["enable_path"] = True
        p.add_argument("--" + a["name"], **akw)
    if spec.get("sub") and not _defer_sub:
        _add_subcommands(p, spec, exit_on_error, parser_kw)
    return p


def _add_subcommands(p, spec, exit_on_error, parser_kw):
    """levels have to be added in level order: a sub-parser is attached before it gets subcommands of its own"""
    sc = p.add_subcommands(required=spec["sub"]["required"], dest=spec["sub"].get("dest", "subcommand"))
    for name, sspec in spec["sub"]["choices"].items():
        sp = build(sspec, exit_on_error=exit_on_error, _defer_sub=True, **{k: v for k, v in parser_kw.items() if k in ("parser_mode",)})
        sc.add_subcommand(name, sp)
        if sspec.get("sub"):
            _add_subcommands(sp, sspec, exit_on_error, parser_kw)


def gen_settings(rng, spec, fill=0.7, hostile=0.25):
    """-> dict dotted-name -> native conforming value (a subset of the arguments)."""
    out = {}
    for a in spec["args"]:
        if rng.random() < fill or a.get("required"):
            v = G.conforming(rng, a["t"], hostile=hostile)
            from vf.models.conform import strict

            if v is None and a["t"].kind != "optional":
                continue
            if strict(v, a["t"]) is not None:
                continue
            out[a["name"]] = v
    return out


def arg_types(spec, prefix=""):
    """dotted key -> T, including subcommand sections"""
    out = {prefix + a["name"]: a["t"] for a in spec["args"]}
    if spec.get("sub"):
        for name, s in spec["sub"]["choices"].items():
            out.update(arg_types(s, prefix + name + "."))
    return out


def settings_input(spec, settings):
    """native settings -> JSON-able inputs (what a user writes)"""
    types = {a["name"]: a["t"] for a in spec["args"]}
    return {k: G.to_input(types[k], v) for k, v in settings.items()}


def nest(flat):
    out = {}
    for k, v in flat.items():
        cur = out
        parts = k.split(".")
        for p in parts[:-1]:
            cur = cur.setdefault(p, {})
        cur[parts[-1]] = v
    return out


def argv_text(v):
    """Text of one option value on argv / in an environment variable: top-level strings raw,
    everything else JSON."""
    if isinstance(v, str):
        return v
    return json.dumps(v, ensure_ascii=False)


def to_argv(inputs, style="eq"):
    argv = []
    for k, v in inputs.items():
        if style == "eq":
            argv.append(f"--{k}={argv_text(v)}")
        else:
            argv += [f"--{k}", argv_text(v)]
    return argv


def jsonable(v):
    try:
        json.dumps(v)
        return True
    except (TypeError, ValueError):
        return False


def spec_summary(spec):
    s = {"args": {a["name"]: a["t"].skel + ("" if a["default"] is MISSING else "=" + repr(a["default"])[:40]) for a in spec["args"]}, "mode": spec.get("mode"), "cfg": spec.get("cfg")}
    if spec.get("sub"):
        s["sub"] = {n: spec_summary(x) for n, x in spec["sub"]["choices"].items()}
        s["sub_required"] = spec["sub"]["required"]
    return s
