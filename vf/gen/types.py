"""Type-hint grammar for the workload generators.

A node T carries the real typing object (`hint`), a value-free skeleton string (for distinctness
counting and finding signatures), its kind and children. Generators produce, for a node:
  conforming(rng)   a native Python value that strictly conforms (what a parse should *return*)
  to_input(v)       the JSON-able form a user would write in a config / pass as object
                    (enum -> name, tuple/set -> list, registered -> its string, Dict[int] keys stay int)
  nearmiss(rng)     (jsonable input, reason) wrong at exactly one position, chosen so that no coercion
                    rule can rescue it (must be rejected), or None when the node offers no such position
"""

from __future__ import annotations

import datetime
import decimal
import pathlib
import uuid
from typing import Any, Dict, List, Literal, Optional, Sequence, Set, Tuple, Union

from jsonargparse import typing as jtyping
from jsonargparse.typing import (
    ClosedUnitInterval,
    Email,
    NonNegativeFloat,
    NonNegativeInt,
    NotEmptyStr,
    OpenUnitInterval,
    PositiveFloat,
    PositiveInt,
    SecretStr,
    restricted_number_type,
    restricted_string_type,
)

from vf.fixtures import zoo

WORDS = ["alpha", "beta", "gamma", "delta", "x", "y_1", "Zed"]


class T:
    __slots__ = ("kind", "hint", "skel", "children", "extra")

    def __init__(self, kind, hint, skel, children=(), extra=None):
        self.kind, self.hint, self.skel, self.children, self.extra = kind, hint, skel, tuple(children), extra

    def __repr__(self):
        return f"T<{self.skel}>"

    def walk(self):
        yield self
        for c in self.children:
            yield from c.walk()

    def kinds(self):
        return {n.kind for n in self.walk()}

    def depth(self):
        return 1 + max((c.depth() for c in self.children), default=0)

    def has(self, *kinds):
        return any(n.kind in kinds for n in self.walk())


# ---- leaves --------------------------------------------------------------------------------------
STR, INT, FLOAT, BOOL = T("str", str, "str"), T("int", int, "int"), T("float", float, "float"), T("bool", bool, "bool")
ANY = T("any", Any, "Any")
LEAVES = [STR, INT, FLOAT, BOOL]


def enum_t(cls):
    return T("enum", cls, cls.__name__, extra=cls)


ENUMS = [enum_t(zoo.Color), enum_t(zoo.Tricky)]

RESTRICTED_NUM = [
    T("rnum", PositiveInt, "PositiveInt", extra=(int, [(">", 0)], "and")),
    T("rnum", NonNegativeInt, "NonNegativeInt", extra=(int, [(">=", 0)], "and")),
    T("rnum", PositiveFloat, "PositiveFloat", extra=(float, [(">", 0)], "and")),
    T("rnum", NonNegativeFloat, "NonNegativeFloat", extra=(float, [(">=", 0)], "and")),
    T("rnum", ClosedUnitInterval, "ClosedUnitInterval", extra=(float, [(">=", 0), ("<=", 1)], "and")),
    T("rnum", OpenUnitInterval, "OpenUnitInterval", extra=(float, [(">", 0), ("<", 1)], "and")),
]
RESTRICTED_STR = [
    T("rstr", NotEmptyStr, "NotEmptyStr", extra=r"^.*[^ ].*$"),
    T("rstr", Email, "Email", extra=r"^[^@ ]+@[^@ ]+\.[^@ ]+$"),
]

REGISTERED = [
    T("reg", complex, "complex", extra="complex"),
    T("reg", decimal.Decimal, "Decimal", extra="Decimal"),
    T("reg", uuid.UUID, "UUID", extra="UUID"),
    T("reg", datetime.timedelta, "timedelta", extra="timedelta"),
    T("reg", bytes, "bytes", extra="bytes"),
    T("reg", bytearray, "bytearray", extra="bytearray"),
    T("reg", range, "range", extra="range"),
    T("reg", pathlib.Path, "pathlib.Path", extra="pathlib"),
    T("reg", SecretStr, "SecretStr", extra="secret"),
]

DATACLASSES = [
    T("dataclass", zoo.Point, "Point", extra=zoo.Point),
    T("dataclass", zoo.Inner, "Inner", extra=zoo.Inner),
    T("dataclass", zoo.Outer, "Outer", extra=zoo.Outer),
]
CLASS_T = T("class", zoo.Base, "Base", extra=zoo.Base)


_RNUM_CACHE: dict = {}


def gen_restricted_num(rng):
    base = rng.choice([int, float])
    n = rng.choice([1, 1, 2])
    ops = [">", ">=", "<", "<=", "==", "!="]
    rs = []
    for _ in range(n):
        ref = rng.randrange(-3, 8)
        rs.append((rng.choice(ops), base(ref) if base is int else rng.choice([float(ref), ref + 0.5])))
    rs = sorted(set(rs))
    join = rng.choice(["and", "or"]) if len(rs) > 1 else "and"  # the automatic name of a 1-restriction type has no join
    key = (base, tuple(rs), join)
    if key not in _RNUM_CACHE:
        try:
            _RNUM_CACHE[key] = restricted_number_type(None, base, rs, join=join)
        except ValueError:  # same restriction set as a predefined type, or an automatic-name clash: draw again
            return gen_restricted_num(rng)
    return T("rnum", _RNUM_CACHE[key], "rnum_" + base.__name__ + ("_" + join if len(rs) > 1 else ""), extra=(base, rs, join))


def gen_restricted_str(rng):
    rx = rng.choice([r"^[a-z]+$", r"^[A-Z][a-z0-9_]*$", r"^\d{2,4}$", r"^(on|off|maybe)$", r"^[a-c]{2}-\d$"])
    name = "RS_" + "".join(ch if ch.isalnum() else "_" for ch in rx)
    t = restricted_string_type(name, rx)
    return T("rstr", t, "rstr_gen", extra=rx)


LITERAL_POOLS = [
    ("a", "b", "c"),
    (1, 2, 3),
    ("x", 1, None),
    (True, "t"),
    ("true", "null", "1"),
    ("on", "off"),
    (0, 1),
    ("1e3", "0x1F", "~"),
]


def gen_literal(rng):
    vals = rng.choice(LITERAL_POOLS)
    return T("literal", Literal[vals], "Literal[" + ",".join(type(v).__name__ for v in vals) + "]", extra=vals)  # type: ignore[valid-type]


# ---- composite -----------------------------------------------------------------------------------
def optional_t(c):
    return T("optional", Optional[c.hint], f"Optional[{c.skel}]", [c])


def union_t(cs):
    return T("union", Union[tuple(c.hint for c in cs)], "Union[" + ",".join(c.skel for c in cs) + "]", cs)  # type: ignore[arg-type]


import collections.abc as _abc
import typing as _typing

LIST_FLAVOURS = {"List": List, "Sequence": Sequence, "MutableSequence": _typing.MutableSequence, "Iterable": _typing.Iterable, "abc.Sequence": _abc.Sequence,
                 "abc.MutableSequence": _abc.MutableSequence, "abc.Iterable": _abc.Iterable, "list": list}
DICT_FLAVOURS = {"Dict": Dict, "Mapping": _typing.Mapping, "MutableMapping": _typing.MutableMapping, "abc.Mapping": _abc.Mapping, "abc.MutableMapping": _abc.MutableMapping, "dict": dict}
SET_FLAVOURS = {"Set": Set, "MutableSet": _typing.MutableSet, "abc.MutableSet": _abc.MutableSet, "set": set, "FrozenSet": _typing.FrozenSet, "frozenset": frozenset}


def list_t(c, flavour="List"):
    h = LIST_FLAVOURS[flavour]
    return T("list", h[c.hint], f"{flavour}[{c.skel}]", [c], extra=flavour)


def dict_t(c, key=str, flavour="Dict"):
    return T("dict", DICT_FLAVOURS[flavour][key, c.hint], f"{flavour}[{key.__name__},{c.skel}]", [c], extra=key)


def rare_flavour(rng, table, usual):
    """the usual spelling mostly; one time in seven another spelling of the same container (typing / collections.abc / builtin)"""
    return rng.choice([k for k in table if k != usual]) if rng.random() < 0.15 else usual


def tuple_t(cs):
    return T("tuple", Tuple[tuple(c.hint for c in cs)], "Tuple[" + ",".join(c.skel for c in cs) + "]", cs)  # type: ignore[arg-type]


def vtuple_t(c):
    return T("vtuple", Tuple[c.hint, ...], f"Tuple[{c.skel},...]", [c])


def set_t(c, flavour="Set"):
    return T("set", SET_FLAVOURS[flavour][c.hint], f"{flavour}[{c.skel}]", [c], extra="frozen" if flavour in ("FrozenSet", "frozenset") else None)


HASHABLE_LEAF_KINDS = {"str", "int", "float", "bool", "enum", "rnum", "rstr", "literal"}


def gen_type(rng, depth=3, profile="full"):
    """Random type hint of nesting depth <= depth.

    profile 'full': the whole grammar; 'plain': no registered/dataclass/class/Any (values with an
    unambiguous text form); 'scalar': leaves only."""
    if depth <= 1 or rng.random() < 0.25:
        return gen_leaf(rng, profile)
    r = rng.random()
    if r < 0.14:
        c = gen_type(rng, depth - 1, profile)
        return optional_t(c) if c.kind not in ("optional", "any") else c
    if r < 0.32:
        n = rng.choice([2, 2, 3, 4])
        cs, seen = [], set()
        for _ in range(n):
            c = gen_type(rng, depth - 1, profile)
            if c.skel not in seen and c.kind not in ("union", "optional", "any"):
                seen.add(c.skel)
                cs.append(c)
        if len(cs) < 2:
            return cs[0] if cs else gen_leaf(rng, profile)
        return union_t(cs)
    if r < 0.50:
        return list_t(gen_type(rng, depth - 1, profile), rare_flavour(rng, LIST_FLAVOURS, "List"))
    if r < 0.66:
        return dict_t(gen_type(rng, depth - 1, profile), int if rng.random() < 0.25 else str, rare_flavour(rng, DICT_FLAVOURS, "Dict"))
    if r < 0.78:
        return tuple_t([gen_type(rng, depth - 1, profile) for _ in range(rng.choice([1, 2, 2, 3]))])
    if r < 0.86:
        return vtuple_t(gen_type(rng, depth - 1, profile))
    if r < 0.93:
        c = gen_leaf(rng, "hashable")
        return set_t(c, rare_flavour(rng, SET_FLAVOURS, "Set"))
    return gen_leaf(rng, profile)


def gen_leaf(rng, profile="full"):
    r = rng.random()
    if profile == "scalar":
        return rng.choice(LEAVES)
    if profile == "hashable":
        pool = LEAVES[:3] + ENUMS + RESTRICTED_NUM[:2] + RESTRICTED_STR[:1]
        return rng.choice(pool)
    if r < 0.45:
        return rng.choice(LEAVES)
    if r < 0.55:
        return rng.choice(ENUMS)
    if r < 0.63:
        return gen_literal(rng)
    if r < 0.72:
        return rng.choice(RESTRICTED_NUM) if rng.random() < 0.6 else gen_restricted_num(rng)
    if r < 0.78:
        return rng.choice(RESTRICTED_STR) if rng.random() < 0.6 else gen_restricted_str(rng)
    if profile == "plain":
        return rng.choice(LEAVES)
    if r < 0.88:
        return rng.choice(REGISTERED)
    if r < 0.94:
        return rng.choice(DATACLASSES)
    if r < 0.97:
        return CLASS_T
    return ANY


# ---- values --------------------------------------------------------------------------------------
def gen_str(rng, hostile=0.0):
    if rng.random() < hostile:
        from vf.gen.values import hostile_string

        return hostile_string(rng)[0]
    return rng.choice(WORDS)


def satisfies(extra, v):
    import operator

    base, rs, join = extra
    ops = {">": operator.gt, ">=": operator.ge, "<": operator.lt, "<=": operator.le, "==": operator.eq, "!=": operator.ne}
    checks = [ops[o](v, ref) for o, ref in rs]
    return all(checks) if join == "and" else any(checks)


def rnum_value(rng, extra, want=True):
    base, rs, join = extra
    cands = []
    for _, ref in rs:
        for d in (-1, 0, 1, -0.5, 0.5, 0.25):
            cands.append(ref + d)
    cands += [0, 1, -1, 5, 0.5, 100, -100]
    if base is int:
        cands += [2**53 + 1, -(2**53 + 1), 10**18 + 1]  # integers that a float cannot hold
    rng.shuffle(cands)
    for c in cands:
        if base is int and isinstance(c, float) and not c.is_integer():
            continue
        v = base(c)
        if satisfies(extra, v) == want:
            return v
    return None


def regex_value(rng, rx):
    table = {
        r"^.*[^ ].*$": ["a", "hello world", " x ", "1"],
        r"^[^@ ]+@[^@ ]+\.[^@ ]+$": ["a@b.c", "name@example.org"],
        r"^[a-z]+$": ["abc", "z", "true"],
        r"^[A-Z][a-z0-9_]*$": ["Abc", "Z", "A1_b"],
        r"^\d{2,4}$": ["12", "0123", "999"],
        r"^(on|off|maybe)$": ["on", "off", "maybe"],
        r"^[a-c]{2}-\d$": ["ab-1", "cc-0"],
    }
    return rng.choice(table[rx])


def regex_bad(rng, rx):
    table = {
        r"^.*[^ ].*$": ["", "   "],
        r"^[^@ ]+@[^@ ]+\.[^@ ]+$": ["a@b", "no at sign", "@x.y"],
        r"^[a-z]+$": ["ABC", "a1", ""],
        r"^[A-Z][a-z0-9_]*$": ["abc", "1A", ""],
        r"^\d{2,4}$": ["1", "12345", "ab"],
        r"^(on|off|maybe)$": ["yes", "ON", ""],
        r"^[a-c]{2}-\d$": ["ab-", "dd-1", "abc-1"],
    }
    return rng.choice(table[rx])


def reg_value(rng, which):
    if which == "complex":
        return rng.choice([complex(1, 2), complex(0, 1), complex(-1.5, 0), complex(3, -4), 0j, complex(1e10, 2.5)])
    if which == "Decimal":
        return decimal.Decimal(rng.choice(["1.5", "0.25", "-3", "100", "2.5e3", "0"]))
    if which == "UUID":
        return uuid.UUID(int=rng.getrandbits(128))
    if which == "timedelta":
        return rng.choice(
            [
                datetime.timedelta(seconds=5),
                datetime.timedelta(days=2, hours=3),
                datetime.timedelta(hours=1, minutes=2, seconds=3),
                datetime.timedelta(days=400),
                datetime.timedelta(0),
                datetime.timedelta(days=1, hours=6),
                datetime.timedelta(days=-1),
                datetime.timedelta(hours=30),
                datetime.timedelta(microseconds=1),
                datetime.timedelta(days=999999, microseconds=1),
            ]
        )
    if which == "bytes":
        return rng.choice([b"abc", b"", b"\x00\xff", bytes(range(rng.randrange(1, 20)))])
    if which == "bytearray":
        return bytearray(rng.choice([b"abc", b"", b"\x00\xff"]))
    if which == "range":
        return rng.choice([range(5), range(2, 7), range(0, 10, 3), range(0, 10, 2), range(0, -9, -3), range(5, 0, -1), range(0), range(-3, 3)])
    if which == "pathlib":
        return pathlib.Path(rng.choice(["some/rel/path.txt", "/abs/path", ".", "file.yaml"]))
    if which == "secret":
        return SecretStr(rng.choice(["hunter2-s3cr3t", "p@ss-w0rd-zz"]))
    raise AssertionError(which)


def reg_to_input(which, v):
    handler = jtyping.get_registered_type(type(v) if which != "pathlib" else pathlib.Path)
    if which == "secret":
        return v.get_secret_value()
    if which == "Decimal":
        return str(v)  # textual form; the library itself serialises through float (see C20)
    return handler.serializer(v)


def conforming(rng, t, hostile=0.0, size=3):
    k = t.kind
    if k == "str":
        return gen_str(rng, hostile)
    if k == "int":
        return rng.choice([0, 1, -1, 7, 42, 10**12, -5, 2**53 + 1, 10**18 + 1, -(10**30)])
    if k == "float":
        if hostile and rng.random() < hostile * 0.2:
            return rng.choice([float("inf"), float("-inf"), float("nan")])  # JSON has no spelling for these
        return rng.choice([0.5, -1.25, 3.0, 1e-7, 2.5e10, 0.0, 100.125, 1e16, -4e21, 2e22, 1e300, 1.5e300, 5e-324, 1e-5, 123456789.125])
    if k == "bool":
        return rng.random() < 0.5
    if k == "any":
        return rng.choice([1, "word", 2.5, True, None, [1, "a"], {"k": 1}])
    if k == "enum":
        return rng.choice(list(t.extra))
    if k == "literal":
        return rng.choice(t.extra)
    if k == "rnum":
        v = rnum_value(rng, t.extra, True)
        if v is None:
            return None  # caller must cope (unsatisfiable restriction)
        try:
            return t.hint(v)
        except ValueError:
            return v  # the type's own cast refuses a value satisfying its restrictions: the checks will say so
    if k == "rstr":
        v = regex_value(rng, t.extra)
        try:
            return t.hint(v)
        except ValueError:
            return v
    if k == "reg":
        return reg_value(rng, t.extra)
    if k == "optional":
        return None if rng.random() < 0.25 else conforming(rng, t.children[0], hostile, size)
    if k == "union":
        return conforming(rng, rng.choice(t.children), hostile, size)
    if k == "list":
        return [conforming(rng, t.children[0], hostile, size - 1) for _ in range(rng.randrange(0, max(1, size)))]
    if k == "dict":
        keys = rng.sample(WORDS, rng.randrange(0, max(1, size))) if t.extra is str else rng.sample(range(-2, 9), rng.randrange(0, max(1, size)))
        if t.extra is str and hostile and rng.random() < hostile:
            from vf.gen.values import hostile_string

            keys = keys + [hostile_string(rng, for_key=True)[0]]
        return {kk: conforming(rng, t.children[0], hostile, size - 1) for kk in keys}
    if k == "tuple":
        return tuple(conforming(rng, c, hostile, size - 1) for c in t.children)
    if k == "vtuple":
        return tuple(conforming(rng, t.children[0], hostile, size - 1) for _ in range(rng.randrange(0, max(1, size))))
    if k == "set":
        out = set()
        for _ in range(rng.randrange(0, max(1, size))):
            v = conforming(rng, t.children[0], 0.0, size - 1)
            if v is not None:
                out.add(v)
        return frozenset(out) if t.extra == "frozen" else out
    if k == "dataclass":
        return dataclass_value(rng, t.extra, hostile)
    if k == "class":
        return class_spec(rng)
    raise AssertionError(k)


def dataclass_value(rng, cls, hostile=0.0):
    """Expected parse result for a dataclass-typed value is a nested dict of fields (compared as dict)."""
    if cls is zoo.Point:
        return {"x": rng.randrange(-5, 50), "y": rng.choice([0.5, 2.0, -1.5])}
    if cls is zoo.Inner:
        return {"name": gen_str(rng, hostile), "tags": [gen_str(rng, hostile) for _ in range(rng.randrange(0, 3))], "color": rng.choice(list(zoo.Color))}
    if cls is zoo.Outer:
        return {
            "inner": dataclass_value(rng, zoo.Inner, hostile),
            "count": rng.choice([None, 3]),
            "pt": dataclass_value(rng, zoo.Point),
            "ratio": rng.choice([0.5, 0.75]),
            "limit": rng.choice([None, None, 30.0, 2.5]),
        }
    raise AssertionError(cls)


def class_spec(rng):
    r = rng.random()
    if r < 0.3:
        return {"class_path": "vf.fixtures.zoo.Base", "init_args": {"a": rng.randrange(9)}}
    if r < 0.6:
        return {"class_path": "vf.fixtures.zoo.SubA", "init_args": {"a": rng.randrange(9), "b": rng.choice(WORDS)}}
    if r < 0.7:
        return {"class_path": "vf.fixtures.zoo.SubB", "init_args": {"c": 0.25, "flag": True, "a": 4}}
    if r < 0.8:
        return {"class_path": "vf.fixtures.zoo.KwOnly", "dict_kwargs": {"z": rng.randrange(9), "w": "q"}}
    if r < 0.88:
        return {"class_path": "vf.fixtures.zoo.WithDictKwargs", "init_args": {"a": 3}, "dict_kwargs": {"extra": [1, 2]}}
    return {"class_path": "vf.fixtures.zoo.SubList", "init_args": {"items": [1, 2], "t": (3, "q")}}


def to_input(t, v):
    """JSON-able form of a conforming native value (what a user writes)."""
    import enum

    if v is None:
        return None
    k = t.kind
    if k in ("str", "int", "float", "bool", "literal"):
        return v
    if k == "any":
        return v
    if k == "enum":
        return v.name
    if k == "rnum":
        return t.extra[0](v)
    if k == "rstr":
        return str(v)
    if k == "reg":
        return reg_to_input(t.extra, v)
    if k == "optional":
        return to_input(t.children[0], v)
    if k == "union":
        m = owner(t, v)
        return to_input(m, v) if m is not None else v
    if k == "list":
        return [to_input(t.children[0], x) for x in v]
    if k == "dict":
        return {kk: to_input(t.children[0], x) for kk, x in v.items()}
    if k == "tuple":
        return [to_input(c, x) for c, x in zip(t.children, v)]
    if k == "vtuple":
        return [to_input(t.children[0], x) for x in v]
    if k == "set":
        return sorted((to_input(t.children[0], x) for x in v), key=repr)
    if k == "dataclass":
        return _dc_input(v)
    if k == "class":
        return _dc_input(v)
    raise AssertionError(k)


def _dc_input(v):
    import enum

    if isinstance(v, dict):
        return {k: _dc_input(x) for k, x in v.items()}
    if isinstance(v, (list, tuple)):
        return [_dc_input(x) for x in v]
    if isinstance(v, enum.Enum):
        return v.name
    return v


def owner(t, v):
    """The first Union member the native value strictly conforms to."""
    from vf.models.conform import strict

    for c in t.children:
        if strict(v, c, exact=True) is None:
            return c
    for c in t.children:
        if strict(v, c) is None:
            return c
    return None


# ---- near misses ---------------------------------------------------------------------------------
def nearmiss(rng, t, allow_none=True):
    """-> (jsonable input, reason) that must be rejected, or None. Only positions without a Union/Any
    ancestor are altered (another member could legitimately accept the altered value)."""
    k = t.kind
    if k == "str":
        return rng.choice([(1, "int-for-str"), ([1], "list-for-str"), ({"a": 1}, "dict-for-str")] + ([(None, "none-for-str")] if allow_none else []))
    if k == "int":
        return rng.choice([("abc", "junk-for-int"), (1.5, "float-for-int"), (True, "bool-for-int"), ([1], "list-for-int")] + ([(None, "none-for-int")] if allow_none else []))
    if k == "float":
        return rng.choice([("abc", "junk-for-float"), (True, "bool-for-float"), ([1.0], "list-for-float")] + ([(None, "none-for-float")] if allow_none else []))
    if k == "bool":
        return rng.choice([(1, "int-for-bool"), ("abc", "junk-for-bool"), ([True], "list-for-bool")] + ([(None, "none-for-bool")] if allow_none else []))
    if k == "enum":
        return rng.choice([("nope", "unknown-enum-member"), (12345, "int-for-enum")])
    if k == "literal":
        return ("zz-not-a-member", "unknown-literal")
    if k == "rnum":
        v = rnum_value(rng, t.extra, False)
        cands = [("abc", "junk-for-rnum"), (True, "bool-for-rnum")]
        if v is not None:
            cands += [(v, "predicate-violation")] * 3
        if t.extra[0] is int:
            cands.append((1.5, "nonintegral-for-rint"))
        return rng.choice(cands)
    if k == "rstr":
        return (regex_bad(rng, t.extra), "regex-violation")
    if k == "reg":
        bad = {
            "complex": "not-complex",
            "Decimal": "12abc",
            "UUID": "not-a-uuid",
            "timedelta": "5 parsecs",
            "range": "range(a)",
        }
        if t.extra in bad:
            return (bad[t.extra], f"junk-for-{t.extra}")
        return None
    if k == "optional":
        return nearmiss(rng, t.children[0], allow_none=False)
    if k in ("union", "any", "class"):
        return None
    if k == "list":
        good = conforming(rng, t, size=3)
        inp = to_input(t, good)
        choices = [("scalar-for-list", lambda: "word-zz"), ("dict-for-list", lambda: {"a": 1})]
        r = rng.random()
        if r < 0.5:
            nm = nearmiss(rng, t.children[0])
            if nm is not None:
                inp = inp + [nm[0]] if rng.random() < 0.5 else [nm[0]] + inp
                return (inp, "list-item:" + nm[1])
        name, f = rng.choice(choices)
        return (f(), name)
    if k == "dict":
        r = rng.random()
        if r < 0.5:
            nm = nearmiss(rng, t.children[0])
            if nm is not None:
                inp = to_input(t, conforming(rng, t, size=2))
                inp[("k_bad" if t.extra is str else 77)] = nm[0]
                return (inp, "dict-value:" + nm[1])
        if t.extra is int and r < 0.75:
            c = conforming(rng, t.children[0])
            if c is not None or t.children[0].kind == "optional":
                return ({"notint": to_input(t.children[0], c)}, "junk-dict-int-key")
        return rng.choice([([1, 2], "list-for-dict"), ("word-zz", "scalar-for-dict")])
    if k == "tuple":
        good = to_input(t, conforming(rng, t))
        r = rng.random()
        if r < 0.35:
            return (good + [good[-1]], "tuple-arity-long")
        if r < 0.6 and len(good) >= 1:
            return (good[:-1], "tuple-arity-short") if len(good) > 1 else ([], "tuple-arity-short")
        if r < 0.85:
            i = rng.randrange(len(t.children))
            nm = nearmiss(rng, t.children[i])
            if nm is not None:
                good[i] = nm[0]
                return (good, "tuple-item:" + nm[1])
        return ("word-zz", "scalar-for-tuple")
    if k == "vtuple":
        nm = nearmiss(rng, t.children[0])
        if nm is not None and rng.random() < 0.6:
            return ([nm[0]], "vtuple-item:" + nm[1])
        return ({"a": 1}, "dict-for-tuple")
    if k == "set":
        ck = t.children[0].kind
        if ck in ("int", "float", "bool") and rng.random() < 0.4:
            # an item of the wrong type that is equal (and hashes equal) to a valid item given before it
            good, bad = {"int": (1, True), "float": (1.0, True), "bool": (True, 1)}[ck]
            return ([good, bad], f"set-item-equal-to-valid-item:{type(bad).__name__}-for-{ck}")
        nm = nearmiss(rng, t.children[0])
        if nm is not None and rng.random() < 0.6 and not isinstance(nm[0], (list, dict)):
            return ([nm[0]], "set-item:" + nm[1])
        return ({"a": 1}, "dict-for-set")
    if k == "dataclass":
        good = to_input(t, conforming(rng, t))
        if t.extra is zoo.Point:
            good["x"] = "junk"
            return (good, "dataclass-field:junk-for-int")
        if t.extra is zoo.Inner:
            good["color"] = "nope"
            return (good, "dataclass-field:unknown-enum-member")
        good["pt"]["y"] = "junk"
        return (good, "dataclass-nested-field:junk-for-float")
    return None


DATACLASS_FIELD_T = {
    zoo.Point: {"x": INT, "y": FLOAT},
    zoo.Inner: {"name": STR, "tags": list_t(STR), "color": ENUMS[0]},
    zoo.Outer: {"inner": DATACLASSES[1], "count": optional_t(INT), "pt": DATACLASSES[0], "ratio": FLOAT, "limit": optional_t(FLOAT)},
}
