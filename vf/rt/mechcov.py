"""Mechanism-coverage observer: which lines of the functions a property is anchored in did the workload execute.

sys.monitoring tool with *local* LINE events set only on the code objects of the anchored functions (resolved by
qualified name in the modules as imported from the current working tree; nested functions included). The callback
returns DISABLE, so the cost is one callback per distinct line. Evidence only ("what did the workload really drive"),
plus one coarse adequacy signal: an anchored function that exists but was never entered."""

from __future__ import annotations

import importlib
import json
import os
import sys
import types

TOOL = 3
_HERE = os.path.dirname(os.path.abspath(__file__))


def _codes_of_module(mod):
    """all code objects reachable from the module's functions and classes, keyed by co_qualname"""
    out = {}
    seen = set()

    def add_code(code):
        if id(code) in seen:
            return
        seen.add(id(code))
        out.setdefault(code.co_qualname, []).append(code)
        for c in code.co_consts:
            if isinstance(c, types.CodeType):
                add_code(c)

    def visit(obj, depth=0):
        if id(obj) in seen or depth > 4:
            return
        if isinstance(obj, (staticmethod, classmethod)):
            obj = obj.__func__
        if isinstance(obj, property):
            for f in (obj.fget, obj.fset, obj.fdel):
                if f is not None:
                    visit(f, depth)
            return
        f = getattr(obj, "__wrapped__", None)
        if f is not None and f is not obj:
            visit(f, depth)
        if isinstance(obj, types.FunctionType):
            if obj.__module__ == mod.__name__ or obj.__code__.co_filename == getattr(mod, "__file__", None):
                add_code(obj.__code__)
        elif isinstance(obj, type) and obj.__module__ == mod.__name__:
            seen.add(id(obj))
            for v in vars(obj).values():
                visit(v, depth + 1)

    for v in list(vars(mod).values()):
        visit(v)
    return out


class MechCov:
    def __init__(self, prop):
        with open(os.path.join(_HERE, "anchors.json")) as f:
            self.anchors = json.load(f)["anchors"].get(prop, [])
        self.codes = {}  # code -> name
        self.lines = {}  # name -> set(all lines)
        self.hits = {}  # name -> set(hit lines)
        self.missing = []
        self.active = False

    def start(self):
        mon = getattr(sys, "monitoring", None)
        if mon is None or not self.anchors:
            return
        bymod = {}
        for modname, qual in self.anchors:
            try:
                mod = importlib.import_module(modname)
            except Exception:
                self.missing.append(f"{modname}.{qual}")
                continue
            if modname not in bymod:
                bymod[modname] = _codes_of_module(mod)
            name = f"{modname.split('.')[-1]}.{qual}"
            found = [(q, c) for q, cs in bymod[modname].items() if q == qual or q.startswith(qual + ".<locals>.") for c in cs]
            if not found:
                self.missing.append(name)
                continue
            for q, c in found:
                self.codes[c] = name
                self.lines.setdefault(name, set()).update(ln for _, _, ln in c.co_lines() if ln is not None and ln != c.co_firstlineno)
                self.hits.setdefault(name, set())
        try:
            mon.use_tool_id(TOOL, "vf-mechcov")
        except ValueError:
            return
        mon.register_callback(TOOL, mon.events.LINE, self._line)
        for c in self.codes:
            mon.set_local_events(TOOL, c, mon.events.LINE)
        self.active = True

    def _line(self, code, line):
        name = self.codes.get(code)
        if name is not None:
            self.hits[name].add(line)
        return sys.monitoring.DISABLE

    def report(self):
        """-> {function: {"hit": [lines], "total": n}}; lines are relative to nothing (current tree numbering)"""
        if not self.active:
            return {"__unavailable__": {"hit": [], "total": 0}}
        out = {name: {"hit": sorted(self.hits[name] & self.lines[name]), "total": len(self.lines[name])} for name in self.lines}
        for name in self.missing:
            out[name + " (not found in this tree)"] = {"hit": [], "total": 0}
        return out
