"""Shared oracles and recorders: type-for-type comparator, outcome capture at the API boundary, deep
snapshots with container identity, provenance stripping, witness rendering."""

from __future__ import annotations

import argparse
import contextlib
import enum
import io
import math
import os
import sys
import traceback
from collections import OrderedDict

import jsonargparse
from jsonargparse import ArgumentError, Namespace
from jsonargparse._util import Path as JPath

META_KEYS = {"__default_config__", "__path__", "__orig__"}


# ------------------------------------------------------------------------------------------------
# same(): value-for-value and type-for-type equality
# ------------------------------------------------------------------------------------------------
def same(a, b, path="", paths_as_text=False):
    """Returns None when equal, else (path, reason). NaN equals NaN. Sets compare as sets."""
    r = same_steps(a, b, paths_as_text=paths_as_text)
    if r is None:
        return None
    return path + steps_str(r[0]), r[1]


def steps_str(steps):
    out = ""
    for kind, k in steps:
        if kind == "key":
            out += ("." if out else "") + str(k)
        elif kind == "idx":
            out += f"[{k}]"
        elif kind == "tup":
            out += f"({k})"
        else:
            out += "{}"
    return out


def same_steps(a, b, steps=(), paths_as_text=False):
    """Like same() but the location is a tuple of steps ('key', k) | ('idx', i) | ('tup', i) | ('set', None)."""
    ta, tb = type(a), type(b)
    if isinstance(a, JPath) and isinstance(b, JPath):
        if ta is not tb and ta.__name__ != tb.__name__:
            return steps, f"path class {ta.__name__} vs {tb.__name__}"
        if a.relative != b.relative:
            return steps, f"path relative {a.relative!r} vs {b.relative!r}"
        if not paths_as_text and a.absolute != b.absolute:
            return steps, f"path absolute {a.absolute!r} vs {b.absolute!r}"
        return None
    if ta is not tb:
        return steps, f"type {ta.__name__} vs {tb.__name__} ({short(a)} vs {short(b)})"
    if isinstance(a, (Namespace, argparse.Namespace)):
        da = {k.lstrip("\u200b"): v for k, v in vars(a).items()}
        db = {k.lstrip("\u200b"): v for k, v in vars(b).items()}
        return same_steps(da, db, steps, paths_as_text)
    if isinstance(a, dict):
        ka, kb = list(a.keys()), list(b.keys())
        if len(ka) != len(kb) or set(map(_kid, ka)) != set(map(_kid, kb)):
            return steps, f"keys {short(ka)} vs {short(kb)}"
        bk = {_kid(k): k for k in kb}
        for k in ka:
            d = same_steps(a[k], b[bk[_kid(k)]], steps + (("key", k),), paths_as_text)
            if d:
                return d
        return None
    if isinstance(a, (list, tuple)):
        if len(a) != len(b):
            return steps, f"length {len(a)} vs {len(b)}"
        kind = "idx" if isinstance(a, list) else "tup"
        for i, (x, y) in enumerate(zip(a, b)):
            d = same_steps(x, y, steps + ((kind, i),), paths_as_text)
            if d:
                return d
        return None
    if isinstance(a, (set, frozenset)):
        if len(a) != len(b):
            return steps, f"set size {len(a)} vs {len(b)}"
        ra = sorted(((type(x).__name__, repr(x)) for x in a))
        rb = sorted(((type(x).__name__, repr(x)) for x in b))
        if ra != rb:
            return steps, f"set {short(a)} vs {short(b)}"
        return None
    if isinstance(a, float):
        if math.isnan(a) and math.isnan(b):
            return None
        if a != b or math.copysign(1, a) != math.copysign(1, b):
            return steps, f"float {a!r} vs {b!r}"
        return None
    if isinstance(a, complex):
        if repr(a) != repr(b):
            return steps, f"complex {a!r} vs {b!r}"
        return None
    if isinstance(a, enum.Enum):
        return None if a is b else (steps, f"enum {a!r} vs {b!r}")
    try:
        eq = a == b
    except Exception as ex:
        return steps, f"== raised {type(ex).__name__}"
    if eq is True:
        return None
    if hasattr(a, "__dict__") and type(a).__eq__ is object.__eq__:
        return same_steps(vars(a), vars(b), steps + (("key", "<vars>"),), paths_as_text)
    return steps, f"value {short(a)} vs {short(b)}"


def diff_class(d):
    """Value-free class of a same() difference, for mechanism-keyed finding signatures."""
    import re

    if not d:
        return "equal"
    path, reason = d
    reason = reason.split(" (")[0]
    if reason.startswith(("keys ", "set ", "value ", "float ", "complex ", "enum ", "path ")):
        reason = reason.split(" ")[0] + ("-" + reason.split(" ")[1] if reason.startswith("path ") else "")
    reason = re.sub(r"\d+", "N", reason).replace(" ", "-")
    pos = "list-item" if path.endswith("]") else ("tuple-item" if path.endswith(")") else "key")
    return f"{reason}@{pos}"


def _kid(k):
    return (type(k).__name__, repr(k))


def short(x, n=160):
    try:
        r = repr(x)
    except Exception:
        r = f"<unreprable {type(x).__name__}>"
    return r if len(r) <= n else r[: n - 3] + "..."


# ------------------------------------------------------------------------------------------------
# provenance
# ------------------------------------------------------------------------------------------------
def strip_prov(cfg, drop=()):
    """Copy of a config (Namespace/dict) without meta keys and without the given dotted keys
    (the config-argument destinations)."""
    drop = set(drop)

    def rec(x, prefix):
        if isinstance(x, Namespace):
            out = Namespace()
            for k, v in vars(x).items():
                kk = k.lstrip("​")
                full = f"{prefix}{kk}"
                if kk in META_KEYS or full in drop:
                    continue
                out.__dict__[k] = rec(v, full + ".")
            return out
        if isinstance(x, dict) and not isinstance(x, OrderedDict):
            return {k: rec(v, f"{prefix}{k}.") for k, v in x.items() if not (isinstance(k, str) and k in META_KEYS)}
        if isinstance(x, list):
            return [rec(v, prefix) for v in x]
        return x

    return rec(cfg, "")


# ------------------------------------------------------------------------------------------------
# outcome capture at the API boundary
# ------------------------------------------------------------------------------------------------
class Outcome:
    __slots__ = ("kind", "value", "code", "stdout", "stderr", "exc", "exc_type", "exc_text", "frame", "tb")

    def __init__(self):
        self.kind = None  # return | ArgumentError | exit | raise
        self.value = None
        self.code = None
        self.stdout = ""
        self.stderr = ""
        self.exc = None
        self.exc_type = None
        self.exc_text = None
        self.frame = None
        self.tb = None

    @property
    def accepted(self):
        return self.kind == "return"

    @property
    def rejected(self):
        """Rejected through the documented channel."""
        return self.kind == "ArgumentError" or (self.kind == "exit" and self.code == 2)

    def brief(self):
        if self.kind == "return":
            return "return " + short(self.value, 300)
        if self.kind == "exit":
            return f"exit {self.code} stderr={short(self.stderr[-300:], 300)}"
        return f"{self.kind} {self.exc_type}: {short(self.exc_text, 300)} @ {self.frame}"

    def decision(self):
        return "accept" if self.accepted else ("reject" if self.rejected else f"escape:{self.exc_type or self.code}")


def lib_frame(exc):
    """Innermost jsonargparse frame (file:function) of an exception's traceback."""
    fr = None
    for f, _ in traceback.walk_tb(exc.__traceback__):
        fn = f.f_code.co_filename
        if os.sep + "jsonargparse" + os.sep in fn and os.sep + "vf" + os.sep not in fn:
            fr = f"{os.path.basename(fn)[:-3]}.{f.f_code.co_qualname if hasattr(f.f_code, 'co_qualname') else f.f_code.co_name}"
    return fr


def api_frame(exc):
    """Outermost jsonargparse frame = the public method that was called."""
    for f, _ in traceback.walk_tb(exc.__traceback__):
        fn = f.f_code.co_filename
        if os.sep + "jsonargparse" + os.sep in fn and os.sep + "vf" + os.sep not in fn:
            return f.f_code.co_name
    return None


def call(fn, *args, **kwargs):
    """Runs fn capturing stdout/stderr, SystemExit and exceptions. Never raises (except KeyboardInterrupt)."""
    o = Outcome()
    so, se = io.StringIO(), io.StringIO()
    try:
        with contextlib.redirect_stdout(so), contextlib.redirect_stderr(se):
            o.value = fn(*args, **kwargs)
        o.kind = "return"
    except ArgumentError as ex:
        o.kind, o.exc = "ArgumentError", ex
    except SystemExit as ex:
        o.kind, o.code = "exit", ex.code if ex.code is not None else 0
    except KeyboardInterrupt:
        raise
    except BaseException as ex:
        o.kind, o.exc = "raise", ex
    if o.exc is not None:
        o.exc_type = type(o.exc).__name__
        try:
            o.exc_text = str(o.exc)
        except Exception:
            o.exc_text = "<str() failed>"
        o.frame = lib_frame(o.exc)
        if o.kind == "raise":
            o.tb = "".join(traceback.format_exception(type(o.exc), o.exc, o.exc.__traceback__))[-2500:]
    o.stdout, o.stderr = so.getvalue(), se.getvalue()
    return o


# ------------------------------------------------------------------------------------------------
# deep snapshot with identity of mutable containers (C08)
# ------------------------------------------------------------------------------------------------
def snapshot(x, _depth=0):
    """Immutable tree capturing values, types and the identity of every mutable container."""
    if _depth > 40:
        return ("<deep>",)
    t = type(x)
    if isinstance(x, (Namespace, argparse.Namespace)):
        return ("ns", t.__name__, id(x), tuple((k, snapshot(v, _depth + 1)) for k, v in vars(x).items()))
    if isinstance(x, dict):
        return ("dict", t.__name__, id(x), tuple((_kid(k), snapshot(v, _depth + 1)) for k, v in x.items()))
    if isinstance(x, list):
        return ("list", t.__name__, id(x), tuple(snapshot(v, _depth + 1) for v in x))
    if isinstance(x, tuple):
        return ("tuple", t.__name__, tuple(snapshot(v, _depth + 1) for v in x))
    if isinstance(x, (set, frozenset)):
        return ("set", t.__name__, id(x), tuple(sorted((type(v).__name__, repr(v)) for v in x)))
    if isinstance(x, enum.Enum):
        return ("enum", t.__name__, x.name)
    if isinstance(x, JPath):
        return ("path", t.__name__, x.relative, x.absolute, x._cwd)
    if isinstance(x, float) and math.isnan(x):
        return ("float", "nan")
    if x is None or isinstance(x, (str, int, float, bool, bytes, complex)):
        return (t.__name__, repr(x))
    d = getattr(x, "__dict__", None)
    if isinstance(d, dict) and not isinstance(x, type) and not callable(x):
        return ("obj", t.__name__, id(x), tuple((k, snapshot(v, _depth + 1)) for k, v in d.items()))
    return ("opaque", t.__name__, id(x))


def snapshot_diff(a, b, path=""):
    """First difference between two snapshots -> (path, what) or None."""
    if a == b:
        return None
    if not isinstance(a, tuple) or not isinstance(b, tuple) or a[0] != b[0]:
        return path, f"{short(a, 120)} -> {short(b, 120)}"
    kind = a[0]
    if kind in ("ns", "dict", "obj"):
        if a[1] != b[1]:
            return path, f"type {a[1]} -> {b[1]}"
        if a[2] != b[2]:
            return path, "container identity changed"
        ka, kb = [k for k, _ in a[3]], [k for k, _ in b[3]]
        if ka != kb:
            return path, f"keys {short(ka, 120)} -> {short(kb, 120)}"
        for (k, va), (_, vb) in zip(a[3], b[3]):
            d = snapshot_diff(va, vb, f"{path}.{k if isinstance(k, str) else k[1]}")
            if d:
                return d
    elif kind == "list":
        if a[1] != b[1] or a[2] != b[2]:
            return path, "list type/identity changed"
        if len(a[3]) != len(b[3]):
            return path, f"list length {len(a[3])} -> {len(b[3])}"
        for i, (va, vb) in enumerate(zip(a[3], b[3])):
            d = snapshot_diff(va, vb, f"{path}[{i}]")
            if d:
                return d
    elif kind == "tuple":
        if len(a[2]) != len(b[2]):
            return path, "tuple length changed"
        for i, (va, vb) in enumerate(zip(a[2], b[2])):
            d = snapshot_diff(va, vb, f"{path}({i})")
            if d:
                return d
    return path, f"{short(a, 120)} -> {short(b, 120)}"


def describe(x, n=600):
    """JSON-able rendering of arbitrary values for witnesses."""
    if isinstance(x, (str, int, float, bool)) or x is None:
        return x if not isinstance(x, float) or math.isfinite(x) else repr(x)
    if isinstance(x, (list, tuple)) and len(x) < 30:
        return [describe(v, n) for v in x]
    if isinstance(x, dict) and len(x) < 30 and all(isinstance(k, str) for k in x):
        return {k: describe(v, n) for k, v in x.items()}
    return short(x, n)


def environ_digest():
    return tuple(sorted(os.environ.items()))


@contextlib.contextmanager
def chdir(path):
    old = os.getcwd()
    os.chdir(path)
    try:
        yield
    finally:
        os.chdir(old)


@contextlib.contextmanager
def environ(mapping):
    old = dict(os.environ)
    os.environ.update(mapping)
    try:
        yield
    finally:
        for k in list(os.environ):
            if k not in old:
                del os.environ[k]
        for k, v in old.items():
            if os.environ.get(k) != v:
                os.environ[k] = v


def version_info():
    return dict(jsonargparse=jsonargparse.__version__, file=jsonargparse.__file__, python=sys.version.split()[0])
