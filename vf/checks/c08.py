"""C08 — parse, validate, dump and instantiate never modify what they are given.

Before/after deep snapshots (values, types and identity of nested containers) of every argument of every
monitored call, of the parser's declared defaults, of cwd / environ / argparse.Namespace / sys.argv, plus
the audit log (balanced chdir, no write-open by read-only operations, no putenv), for calls that return
and calls that raise; freshness monitor for instantiate_classes (two calls -> distinct objects, no shared
instance transitively, exactly one construction per spec per call)."""

from __future__ import annotations

import argparse
import copy
import json
import os
import sys
from typing import Dict, List, Optional, Tuple

from jsonargparse import ActionConfigFile, ArgumentParser, Namespace, lazy_instance

from vf.checks import c01
from vf.fixtures import zoo
from vf.gen import parsers as P
from vf.util import call, environ_digest, short, snapshot, snapshot_diff

AUDIT = {"on": False, "events": []}


def _hook(event, args):
    if not AUDIT["on"]:
        return
    if event == "open":
        if isinstance(args[0], (str, bytes)) and args[1] and any(ch in str(args[1]) for ch in "wax+"):
            AUDIT["events"].append(("open-w", str(args[0])))
    elif event in ("os.chdir", "os.putenv", "os.unsetenv", "os.remove", "os.rename", "os.mkdir", "os.rmdir", "os.truncate"):
        AUDIT["events"].append((event, str(args[0])))


sys.addaudithook(_hook)


def defaults_snapshot(p, actions=None):
    """declared defaults of the given actions (those that existed before the call: a call may lazily add options)"""
    actions = list(p._actions) if actions is None else actions
    return actions, tuple((a.dest, snapshot(a.default)) for a in actions) + (("_defaults", snapshot(getattr(p, "_defaults", None))),)


class Probe:
    """boundary recorder for one call: snapshots before, compares after"""

    def __init__(self, ctx, p, opname, args, kwargs=None, readonly=True, w=None):
        self.ctx, self.p, self.opname, self.args, self.kwargs, self.readonly, self.w = ctx, p, opname, args, kwargs or {}, readonly, w or {}

    def run(self, fn):
        ctx = self.ctx
        before_args = [snapshot(a) for a in self.args]
        before_kw = {k: snapshot(v) for k, v in self.kwargs.items()}
        acts, before_def = defaults_snapshot(self.p)
        before_cwd, before_env, before_ns, before_argv = os.getcwd(), environ_digest(), argparse.Namespace, list(sys.argv)
        AUDIT["events"] = []
        AUDIT["on"] = True
        try:
            o = call(fn, *self.args, **self.kwargs)
        finally:
            AUDIT["on"] = False
        events = list(AUDIT["events"])
        ctx.count("mon.calls_snapshotted")
        ctx.count(f"ev.{self.opname}.{'return' if o.accepted else ('raise' if o.kind != 'exit' else 'exit')}")
        outcome = "returning" if o.accepted else "raising"
        w = dict(self.w, op=self.opname, outcome=o.brief())
        bad = False
        for n, (a, b) in enumerate(zip(before_args, [snapshot(a) for a in self.args])):
            d = snapshot_diff(a, b)
            if d:
                ctx.violation("immutability", f"argument-modified/{self.opname}/{outcome}/{diff_kind(d)}", dict(w, argument=n, at=d[0], change=d[1], argument_after=short(self.args[n], 500)))
                bad = True
                break
        for k, a in before_kw.items():
            d = snapshot_diff(a, snapshot(self.kwargs[k]))
            if d and not bad:
                ctx.violation("immutability", f"argument-modified/{self.opname}-{k}/{outcome}/{diff_kind(d)}", dict(w, at=d[0], change=d[1]))
                bad = True
        d = snapshot_diff(before_def, defaults_snapshot(self.p, acts)[1])
        if d and not bad:
            ctx.violation("immutability", f"parser-defaults-modified/{self.opname}/{outcome}", dict(w, at=d[0], change=d[1]))
            bad = True
        if os.getcwd() != before_cwd:
            ctx.violation("process-state", f"cwd-changed/{self.opname}/{outcome}", dict(w, before=before_cwd, after=os.getcwd(), chdirs=[e for e in events if e[0] == "os.chdir"]))
            os.chdir(before_cwd)
            bad = True
        if environ_digest() != before_env:
            ctx.violation("process-state", f"environ-changed/{self.opname}/{outcome}", dict(w))
            bad = True
        if argparse.Namespace is not before_ns:
            ctx.violation("process-state", f"argparse.Namespace-left-patched/{self.opname}/{outcome}", dict(w))
            argparse.Namespace = before_ns
            bad = True
        if sys.argv != before_argv:
            ctx.violation("process-state", f"sys.argv-changed/{self.opname}", dict(w))
            bad = True
        if self.readonly:
            writes = [e for e in events if e[0] in ("open-w", "os.remove", "os.rename", "os.mkdir", "os.truncate")]
            if writes:
                ctx.violation("process-state", f"read-only-operation-writes-files/{self.opname}", dict(w, events=writes[:5]))
                bad = True
        if any(e[0] in ("os.putenv", "os.unsetenv") for e in events):
            ctx.violation("process-state", f"environment-variable-written/{self.opname}", dict(w, events=[e for e in events if "env" in e[0]][:5]))
            bad = True
        ctx.count("mon.audit_events", len(events))
        return o


def diff_kind(d):
    what = d[1]
    if "identity" in what:
        return "container-replaced"
    if "type" in what or "->" in what and ("ns" in what and "dict" in what):
        return "type-changed"
    if "keys" in what or "length" in what:
        return "structure-changed"
    return "value-changed"


def rich_settings(rng, spec):
    settings = P.gen_settings(rng, spec, fill=0.85, hostile=0.1)
    return P.settings_input(spec, settings)


def case_generic(ctx, i, rng):
    spec = P.gen_spec(rng, nargs=(2, 5), depth=3 if ctx.tier == "quick" else 4, profile="noany", nested=0.4, cfg=True, mode="yaml", defaults=0.5, sub=0.2)
    if c01.has_secret(spec):
        return
    o = call(P.build, spec)
    if not o.accepted:
        return
    p = o.value
    inputs = rich_settings(rng, spec)
    obj = P.nest(inputs)
    argv = P.to_argv(inputs)
    if spec.get("sub"):
        name = rng.choice(list(spec["sub"]["choices"]))
        obj["subcommand"] = name
        argv = argv + [name]
    w = dict(spec=P.spec_summary(spec))
    ctx.evaluation(("gen", tuple(sorted(t.skel for t in P.arg_types(spec).values()))))
    # rejected variant: a bad value at the *last* key so that earlier keys were already processed
    bad_obj = copy.deepcopy(obj)
    bad_obj["zz_last_key_unknown"] = {"nested": [1, {"a": 2}]}
    for opname, args, kw in (
        ("parse_object", [obj], {}),
        ("parse_object", [bad_obj], {}),
        ("parse_object", [_to_ns(obj)], {}),
        ("parse_args", [argv], {}),
        ("parse_args", [argv + ["--zz_unknown=1"]], {}),
        ("parse_args", [list(argv)], {"namespace": _to_ns({k: v for k, v in obj.items() if not isinstance(v, dict) and k != "subcommand"})}),
        ("parse_string", [json.dumps(obj)], {}),
    ):
        Probe(ctx, p, opname, args, kw, readonly=True, w=w).run(getattr(p, opname))
    ok = call(p.parse_object, copy.deepcopy(obj))
    if not ok.accepted:
        return
    cfg = ok.value
    ctx.count("mon.accepted_configs")
    if not spec.get("sub") and rng.random() < 0.35:
        # a default config file that gives values, among others, for arguments declared without a default
        dcf = os.path.join(ctx.workdir, f"c8_defaults_{i % 20}.json")
        with open(dcf, "w") as f:
            json.dump(obj, f)
        p.default_config_files = [dcf]
        w = dict(w, default_config_file=short(obj, 300))
        ctx.count("st.parser_with_default_config_file")
    for opname, fn, args, kw, ro in (
        ("validate", p.validate, [cfg], {}, True),
        ("dump.yaml", p.dump, [cfg], {}, True),
        ("dump.json", p.dump, [cfg], {"format": "json"}, True),
        ("dump.skip_default", p.dump, [cfg], {"skip_default": True, "skip_none": False}, True),
        ("dump.comments", p.dump, [cfg], {"yaml_comments": True}, True),
        ("parse_object-of-result", p.parse_object, [cfg], {}, True),
        ("merge_config", p.merge_config, [cfg, copy.deepcopy(cfg)], {}, True),
        ("strip_unknown", p.strip_unknown, [cfg], {}, True),
        ("instantiate_classes", p.instantiate_classes, [cfg], {}, True),
        ("get_defaults", p.get_defaults, [], {}, True),
        ("format_help", p.format_help, [], {}, True),
        ("save", p.save, [cfg, os.path.join(ctx.workdir, f"c8_{i % 20}.yaml")], {"overwrite": True}, False),
    ):
        Probe(ctx, p, opname, args, kw, readonly=ro, w=w).run(fn)
    # an invalid value planted into an accepted configuration: validate/dump raise, must still leave it untouched
    broken = copy.deepcopy(cfg)
    keys = [k for k in P.arg_types(spec)]
    if keys:
        try:
            broken[keys[-1]] = {"not": ["valid", {"x": (1, [2])}]}
            for opname, fn in (("validate", p.validate), ("dump.yaml", p.dump), ("instantiate_classes", p.instantiate_classes)):
                Probe(ctx, p, opname + "-invalid", [broken], {}, readonly=True, w=w).run(fn)
        except Exception:
            pass


def _to_ns(d):
    ns = Namespace()
    for k, v in d.items():
        ns[str(k)] = _to_ns(v) if isinstance(v, dict) and k in ("grp", "opt", "model", "data", "g2") else copy.deepcopy(v)
    return ns


def class_parser():
    p = ArgumentParser(exit_on_error=False)
    p.add_argument("--cfg", action=ActionConfigFile)
    p.add_argument("--m", type=zoo.Base)
    p._vf_lazy = lazy_instance(zoo.SubA, a=3)
    p.add_argument("--lz", type=zoo.Base, default=p._vf_lazy)
    p.add_argument("--cs", type=zoo.Base, default={"class_path": "vf.fixtures.zoo.SubA", "init_args": {"a": 1}})
    p.add_argument("--nums", type=List[int], default=[1, 2])
    p.add_argument("--ms", type=List[zoo.Base])
    p.add_argument("--dm", type=Dict[str, zoo.Base])
    p.add_argument("--holder", type=zoo.Holder)
    p.add_argument("--tp", type=Tuple[zoo.Holder, int])
    p.add_argument("--ltp", type=List[Tuple[str, zoo.Holder]])
    p.add_argument("--ho", type=zoo.HolderOpt, default=lazy_instance(zoo.HolderOpt))
    p.add_argument("--dc", type=zoo.Outer, default=zoo.Outer())
    p.add_class_arguments(zoo.SubB, "grp")
    return p


def spec(cls, **ia):
    return {"class_path": f"vf.fixtures.zoo.{cls}", "init_args": ia}


def instances(x, acc=None, depth=0):
    """all zoo instances reachable from a result"""
    acc = acc if acc is not None else {}
    if depth > 8:
        return acc
    if isinstance(x, (zoo.Base, zoo.Holder, zoo.HolderOpt, zoo.Unrelated)):
        if id(x) in acc:
            return acc
        acc[id(x)] = x
        for v in vars(x).values():
            instances(v, acc, depth + 1)
    elif isinstance(x, Namespace):
        for v in vars(x).values():
            instances(v, acc, depth + 1)
    elif isinstance(x, dict):
        for v in x.values():
            instances(v, acc, depth + 1)
    elif isinstance(x, (list, tuple, set)):
        for v in x:
            instances(v, acc, depth + 1)
    return acc


def case_classes(ctx, i, rng):
    p = class_parser()
    holder = spec("Holder", child=spec(rng.choice(["SubA", "Base"]), a=rng.randrange(9)), n=1)
    obj = {}
    feats = [f for f in ("m", "ms", "dm", "holder", "tp", "ltp", "ho") if rng.random() < 0.6]
    if "m" in feats:
        obj["m"] = spec("SubA", a=1, b="x")
    if "ms" in feats:
        obj["ms"] = [spec("SubA", a=2), spec("SubList", items=[1, 2], t=[3, "q"]), {"class_path": "vf.fixtures.zoo.WithDictKwargs", "init_args": {"a": 4}, "dict_kwargs": {"extra": [1, {"k": 2}]}}]
    if "dm" in feats:
        obj["dm"] = {"k1": spec("SubB", c=0.25), "k2": spec("Base", a=5), "k3": {"class_path": "vf.fixtures.zoo.WithDictKwargs", "init_args": {"a": 2}, "dict_kwargs": {"extra": 1}}}
        if rng.random() < 0.5:
            import collections

            obj["dm"] = collections.OrderedDict(obj["dm"])  # a mapping type of its own: copies must reach inside it too
            ctx.count("st.ordereddict_of_class_specs")
    if "holder" in feats:
        obj["holder"] = copy.deepcopy(holder)
    if "tp" in feats:
        obj["tp"] = [copy.deepcopy(holder), 7]
    if "ltp" in feats:
        obj["ltp"] = [["first", copy.deepcopy(holder)], ["second", copy.deepcopy(holder)]]
    if "ho" in feats:
        obj["ho"] = spec("HolderOpt", child=spec("SubA", a=6), many=[spec("Base", a=7), spec("SubA", a=8)], m={"z": spec("SubB")})
    w = dict(features=feats)
    ctx.evaluation(("cls", tuple(feats)))
    blank = rng.random() < 0.4
    if blank:
        # a default config file that exists but holds nothing (empty / only a comment): results still never alias the
        # declared defaults, so writing below a branch-valued default in one parse must not show in the next
        dcf = os.path.join(ctx.workdir, f"c8_blank_{i % 7}.yaml")
        with open(dcf, "w") as f:
            f.write(rng.choice(["", "# nothing here\n", "\n\n"]))
        p.default_config_files = [dcf]
        w = dict(w, default_config_file="blank")
        ctx.count("st.blank_default_config_file")
    if blank or rng.random() < 0.3:
        argv = ["--cs.init_args.a=5", "--lz.init_args.a=6", "--nums+=3", "--ho.init_args.many+=" + json.dumps(spec("Base", a=9)), "--dc.inner.x=41"]
        rng.shuffle(argv)
        argv = argv[: rng.randrange(1, len(argv) + 1)]
        first = call(p.parse_args, [])
        Probe(ctx, p, "parse_args-below-branch-defaults", [argv], {}, w=dict(w, argv=argv)).run(p.parse_args)
        again = call(p.parse_args, [])
        ctx.count("mon.parse_after_writing_below_branch_defaults")
        if first.accepted and again.accepted:
            from vf.util import same

            d = same(first.value.as_dict(), again.value.as_dict())
            if d:
                ctx.violation("immutability", "defaults-only-parse-differs-after-a-parse-that-wrote-below-branch-defaults", dict(w, argv=argv, at=d[0], why=d[1]))
    o = Probe(ctx, p, "parse_object", [obj], {}, w=w).run(p.parse_object)
    if not o.accepted:
        ctx.observe("class-config-rejected", o.brief())
        return
    cfg = o.value
    # merge_config with differing class_path and incompatible init_args
    other = Namespace(m=Namespace(class_path="vf.fixtures.zoo.SubB", init_args=Namespace(c=0.75)), lz=Namespace(class_path="vf.fixtures.zoo.SubList", init_args=Namespace(items=[5])))
    to = Namespace(m=Namespace(class_path="vf.fixtures.zoo.SubA", init_args=Namespace(a=1, b="zz")), lz=Namespace(class_path="vf.fixtures.zoo.SubA", init_args=Namespace(a=3, b="q")))
    Probe(ctx, p, "merge_config-class-change", [other, to], {}, w=w).run(p.merge_config)
    ctx.count("mon.merge_config_class_change")
    # freshness
    zoo.CALLS.clear()
    o1 = Probe(ctx, p, "instantiate_classes", [cfg], {}, w=w).run(p.instantiate_classes)
    n1 = len(zoo.CALLS)
    zoo.CALLS.clear()
    o2 = Probe(ctx, p, "instantiate_classes", [cfg], {}, w=w).run(p.instantiate_classes)
    n2 = len(zoo.CALLS)
    if not (o1.accepted and o2.accepted):
        ctx.violation("freshness", f"instantiate-failed/{(o1 if not o1.accepted else o2).exc_type}", dict(w, first=o1.brief(), second=o2.brief()))
        return
    ctx.count("mon.instantiate_pairs")
    i1, i2 = instances(o1.value), instances(o2.value)
    ctx.count("mon.instances_checked", len(i1))
    shared = set(i1) & set(i2)
    if shared:
        ob = i1[next(iter(shared))]
        where = [k for k in vars(o1.value) if id(ob) in instances(o1.value[k])]
        ctx.violation("freshness", f"instance-shared-between-two-instantiate-calls/{type(ob).__name__}/{'+'.join(sorted(where))}", dict(w, shared=[type(i1[s]).__name__ for s in shared]))
        return
    if n1 != n2:
        ctx.violation("freshness", "number-of-constructions-differs-between-two-calls", dict(w, first=n1, second=n2))
        return
    if len(i1) != len(i2):
        ctx.violation("freshness", "number-of-instances-differs-between-two-calls", dict(w, first=len(i1), second=len(i2)))
        return
    if i % 3 == 0:
        # the lazy default instance gets used by the program (first method call initialises it): parsing and instantiating
        # afterwards still work from the recorded spec, never from that live object
        lazy = p._vf_lazy
        d0 = call(p.get_defaults)
        od = call(lazy.describe)
        ctx.count("mon.lazy_default_instance_used")
        d1 = call(p.get_defaults)
        if not (od.accepted and d0.accepted and d1.accepted):
            ctx.violation("freshness", "lazy-default-use-or-get_defaults-failed", dict(w, use=od.brief(), before=d0.brief(), after=d1.brief()))
            return
        from vf.util import same

        d = same(d0.value.as_dict(), d1.value.as_dict())
        if d:
            ctx.violation("freshness", "defaults-changed-by-using-the-lazy-default-instance", dict(w, at=d[0], why=d[1]))
            return
        o3 = call(p.parse_object, copy.deepcopy(obj))
        d = same(cfg.as_dict(), o3.value.as_dict()) if o3.accepted else ("", o3.brief())
        if d:
            ctx.violation("freshness", "parse-differs-after-using-the-lazy-default-instance", dict(w, at=d[0], why=d[1]))
            return
        o4 = call(p.instantiate_classes, o3.value)
        if o4.accepted and id(lazy) in instances(o4.value):
            ctx.violation("freshness", "live-default-instance-handed-out-by-instantiate_classes", dict(w))


def case_cwd(ctx, i, rng):
    """config files reached through symlinked directories; failing and succeeding parses"""
    root = os.path.join(ctx.workdir, f"cw{i % 6}")
    import shutil

    shutil.rmtree(root, ignore_errors=True)
    os.makedirs(os.path.join(root, "real", "sub"))
    os.symlink("real", os.path.join(root, "link"))
    os.symlink(os.path.join(root, "real", "sub"), os.path.join(root, "abslink"))
    good = rng.random() < 0.6
    with open(os.path.join(root, "real", "sub", "c.yaml"), "w") as f:
        f.write("n: 3\npt: pt.yaml\n" if good else "n: notint\npt: pt.yaml\n")
    with open(os.path.join(root, "real", "sub", "pt.yaml"), "w") as f:
        f.write("x: 1\ny: 2.0\n")
    exiting = rng.random() < 0.35  # failures end in usage + SystemExit(2) instead of ArgumentError
    p = ArgumentParser(exit_on_error=exiting)
    if exiting and not good:
        ctx.count("st.failing_config_parse_with_exit_on_error")
    p.add_argument("--cfg", action=ActionConfigFile)
    p.add_argument("--n", type=int, default=0)
    p.add_argument("--pt", type=zoo.Point)
    via = rng.choice(["link/sub/c.yaml", "abslink/c.yaml", "real/sub/c.yaml", "real/sub/../sub/c.yaml"])
    how = rng.choice(["parse_path", "--cfg", "default_config_files", "pathobj-cwd", "pathobj-early", "save-pathobj"])
    old = os.getcwd()
    os.chdir(root)
    try:
        if how in ("pathobj-cwd", "pathobj-early", "save-pathobj"):
            # a jsonargparse Path object whose recorded cwd is not the process working directory (created with cwd=, or
            # created earlier while the process was elsewhere) given to parse_path / save: the process stays where it is
            from jsonargparse import Path as JPath

            elsewhere = os.path.join(root, "real")
            ctx.evaluation(("cwd", via, how, good))
            ctx.count("mon.path_object_with_foreign_cwd")
            if how != "save-pathobj":
                ctx.count("mon.symlinked_config_parses")
            w = dict(via=via, how=how, config_valid=good)
            if how == "pathobj-cwd":
                os.chdir(elsewhere)
                po = call(JPath, via, mode="fr", cwd=root)
            elif how == "pathobj-early":
                po = call(JPath, via, mode="fr")
                os.chdir(elsewhere)
            else:
                os.chdir(elsewhere)
                po = call(JPath, f"saved{i % 5}.yaml", mode="fc", cwd=os.path.join(root, "real", "sub"))
            if not po.accepted:
                ctx.observe("path-object-not-created", po.brief())
                return
            if how == "save-pathobj":
                cfg = call(p.parse_args, ["--n=4"])
                if cfg.accepted:
                    Probe(ctx, p, "save-path-object", [cfg.value, po.value], {"overwrite": True}, readonly=False, w=w).run(p.save)
            else:
                Probe(ctx, p, "parse_path-path-object", [po.value], {}, w=w).run(p.parse_path)
            return
        ctx.evaluation(("cwd", via, how, good))
        ctx.count("mon.symlinked_config_parses")
        w = dict(via=via, how=how, config_valid=good)
        if how == "parse_path":
            Probe(ctx, p, "parse_path", [via], {}, w=w).run(p.parse_path)
        elif how == "--cfg":
            Probe(ctx, p, "parse_args", [["--cfg", via]], {}, w=w).run(p.parse_args)
        else:
            p.default_config_files = [os.path.join(root, via)]
            Probe(ctx, p, "parse_args", [[]], {}, w=w).run(p.parse_args)
            Probe(ctx, p, "get_defaults", [], {}, w=w).run(p.get_defaults)
    finally:
        os.chdir(old)


def _twice(s):
    return int(s) * 2


def case_list_valued(ctx, i, rng):
    """arguments whose value is a list because of nargs (typed, and with a plain callable as type) and a JSON-schema
    argument whose schema has defaults: the lists and dicts the caller passes stay as they were"""
    from jsonargparse import ActionJsonSchema

    p = ArgumentParser(exit_on_error=False)
    p.add_argument("--many", nargs="+", type=int)
    p.add_argument("--pair", nargs=2, type=float)
    p.add_argument("--tw", nargs="*", type=_twice)
    p.add_argument("--js", action=ActionJsonSchema(schema={"type": "object", "properties": {"a": {"type": "integer", "default": 7}, "b": {"type": "string"}, "c": {"type": "object", "properties": {"d": {"type": "number", "default": 0.5}}}}}))
    p.add_argument("--jl", nargs="+", action=ActionJsonSchema(schema={"type": "object", "properties": {"a": {"type": "integer", "default": 1}}}))
    obj = {}
    if rng.random() < 0.7:
        obj["many"] = rng.choice([["1", "2"], [3], ["4", 5]])
    if rng.random() < 0.5:
        obj["pair"] = rng.choice([["1", 2], [0.5, "2.5"]])
    if rng.random() < 0.5:
        obj["tw"] = rng.choice([["1"], ["2", "3"], []])
    if rng.random() < 0.7:
        obj["js"] = rng.choice([{"b": "x"}, {"a": 1, "c": {}}, {"c": {"d": 2}}])
    if rng.random() < 0.4:
        obj["jl"] = [{}, {"a": 5}]
    if not obj:
        obj["many"] = ["7"]
    w = dict(given=short(obj, 300))
    ctx.evaluation(("list-valued", tuple(sorted(obj))))
    ctx.count("st.list_valued_and_schema_arguments")
    for opname, args in (("parse_object", [obj]), ("parse_object", [_to_ns(obj)])):
        Probe(ctx, p, opname + "-list-valued", args, {}, readonly=True, w=w).run(p.parse_object)
    ok = call(p.parse_object, copy.deepcopy(obj))
    if ok.accepted:
        for opname, fn in (("validate", p.validate), ("dump.yaml", p.dump), ("parse_object-of-result", p.parse_object)):
            Probe(ctx, p, opname + "-list-valued", [ok.value], {}, readonly=True, w=w).run(fn)


def run_shard(ctx):
    for i, rng in ctx.cases():
        zoo.CALLS.clear()
        if i % 9 == 4:
            case_list_valued(ctx, i, rng)
            continue
        r = i % 5
        if r in (0, 1):
            case_generic(ctx, i, rng)
        elif r in (2, 3):
            case_classes(ctx, i, rng)
        else:
            case_cwd(ctx, i, rng)
        if i < 2:
            ctx.sample(dict(monitored_operations=["parse_object", "parse_args", "parse_string", "validate", "dump.*", "merge_config", "strip_unknown", "instantiate_classes", "get_defaults", "format_help", "save", "parse_path"]))
