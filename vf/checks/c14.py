"""C14 — a class_path is checked against the declared type and built from its config.

Generated class families (real source files) + ground truth from issubclass / inspect.signature.bind for
accept/reject, constructor call log for instantiation (exact type, built once, exact arguments, children
first and passed as objects), and a short-form vs explicit-form differential."""

from __future__ import annotations

import copy
import inspect
import json
from typing import Dict, List, Optional, Union

from jsonargparse import ArgumentParser, Namespace

from vf.gen import programs
from vf.util import call, same, short, strip_prov

FAMILY = '''import abc
from typing import Any, Dict, List, Optional, Tuple, Union
CALLS = []
def rec(obj, **kw):
    CALLS.append((type(obj).__name__, id(obj), kw, obj))

class Base:
    def __init__(self, p0: int = 1, p1: str = "a"):
        self.p0, self.p1 = p0, p1
        rec(self, p0=p0, p1=p1)

class _Impl(Base):
    pass

class SubA(Base):
    def __init__(self, p0: int = 2, extra: float = 0.5, tags: Optional[List[str]] = None):
        self.p0, self.extra, self.tags = p0, extra, tags
        rec(self, p0=p0, extra=extra, tags=tags)

class SubB(_Impl):
    def __init__(self, q: bool = False, **kwargs):
        super().__init__(**kwargs)
        self.q = q
        rec(self, q=q, **kwargs)

class Req(Base):
    def __init__(self, need: int, p0: int = 3):
        self.need, self.p0 = need, p0
        rec(self, need=need, p0=p0)

class Loose(Base):
    def __init__(self, p0: int = 4, **kw: Any):
        self.p0, self.kw = p0, kw
        rec(self, p0=p0, **kw)

class BadDef(Base):
    def __init__(self, lr: int = 0.5):
        rec(self, lr=lr)

class Abstract(abc.ABC):
    @abc.abstractmethod
    def run(self): ...

class Concrete(Abstract):
    def __init__(self, k: int = 5):
        self.k = k
        rec(self, k=k)
    def run(self):
        return self.k

class Unrelated:
    def __init__(self, z: int = 0):
        rec(self, z=z)

class Holder:
    def __init__(self, child: Base, n: int = 0, many: Optional[List[Base]] = None, named: Optional[Dict[str, Base]] = None, either: Union[Base, int] = 0):
        self.child, self.n, self.many, self.named, self.either = child, n, many, named, either
        rec(self, child=child, n=n, many=many, named=named, either=either)

def make(p0: int = 9) -> Base:
    return SubA(p0=p0, extra=9.5)

def make_unrelated(z: int = 1) -> Unrelated:
    return Unrelated(z)

not_callable = 5
'''

_MOD = {}


def family(ctx):
    if "m" not in _MOD:
        mod, path = programs.write_module(ctx.workdir, FAMILY, "c14fam")
        _MOD["m"] = mod
    return _MOD["m"]


def parser_for(hint, mod, default=None):
    p = ArgumentParser(exit_on_error=False)
    kw = {}
    if default is not None:
        kw["default"] = default
    p.add_argument("--a", type=hint, **kw)
    p.add_argument("--n", type=int, default=0)
    return p


def valid_init_args(rng, mod, cls):
    sig = inspect.signature(cls.__init__)
    out = {}
    pool = {"p0": lambda: rng.randrange(50), "p1": lambda: rng.choice(["x", "y z", "1"]), "extra": lambda: rng.choice([0.25, 2.0]), "tags": lambda: rng.choice([None, ["t"], []]),
            "q": lambda: rng.random() < 0.5, "need": lambda: rng.randrange(9), "k": lambda: rng.randrange(9), "z": lambda: 3, "n": lambda: rng.randrange(5)}
    for name, prm in sig.parameters.items():
        if name in ("self", "kwargs", "kw", "child", "many", "named", "either"):
            continue
        if prm.default is inspect._empty or rng.random() < 0.6:
            out[name] = pool[name]()
    if cls is mod.SubB and rng.random() < 0.5:
        out["p0"] = rng.randrange(50)  # reaches Base through **kwargs
    return out


def expected_kwargs(mod, cls, init_args, dict_kwargs=None):
    """what the constructor must receive: configured init_args + dict_kwargs (defaults are filled by the parser from the signature)"""
    return {**init_args, **(dict_kwargs or {})}


def spec_cases(rng, mod):
    """-> list of (kind, declared hint name, spec or argv, expectation)"""
    M = mod.__name__
    cases = []
    cls = rng.choice([mod.Base, mod.SubA, mod.SubB, mod.Req, mod.Loose])
    ia = valid_init_args(rng, mod, cls)
    dk = {"anything": rng.randrange(9), "more": "m"} if cls is mod.Loose and rng.random() < 0.7 else None
    spec = {"class_path": f"{M}.{cls.__name__}", "init_args": dict(ia)}
    if dk:
        spec["dict_kwargs"] = dict(dk)
    cases.append(("valid-explicit", spec, ("accept", cls, ia, dk)))
    cases.append(("wrong-class", {"class_path": f"{M}.Unrelated", "init_args": {"z": 1}}, ("reject", None)))
    cases.append(("non-class-import", {"class_path": rng.choice(["os.path", f"{M}.not_callable", "json.dumps", f"{M}.make_unrelated", "no.such.module.C", "NoSuchName"])}, ("reject", None)))
    cases.append(("callable-returning-subclass", {"class_path": f"{M}.make", "init_args": {"p0": 4}}, ("accept-callable", None)))
    bad = copy.deepcopy(spec)
    bad["init_args"]["zz_unknown"] = 1
    if cls is not mod.Loose and cls is not mod.SubB:
        cases.append(("unknown-init-arg", bad, ("reject-naming", "zz_unknown")))
    ill = copy.deepcopy(spec)
    ill["init_args"]["p0"] = "not-an-int"
    cases.append(("ill-typed-init-arg", ill, ("reject-naming", "p0")))
    # init_args valid for a *sibling* but not for this class
    if cls is mod.Base:
        sib = copy.deepcopy(spec)
        sib["init_args"] = {"extra": 0.25}
        cases.append(("init-args-of-sibling-class", sib, ("reject-naming", "extra")))
    cases.append(("required-init-arg-missing", {"class_path": f"{M}.Req", "init_args": {"p0": 1}}, ("reject-naming", "need")))
    cases.append(("class-path-not-str", {"class_path": 5}, ("reject", None)))
    return cases


def check_instantiation(ctx, mod, p, cfg, cls, ia, dk, w, path=("a",)):
    mod.CALLS.clear()
    o = call(p.instantiate_classes, copy.deepcopy(cfg))
    ctx.count("mon.instantiations")
    if not o.accepted:
        ctx.violation("instantiate", f"instantiate-failed/{o.exc_type}", dict(w, outcome=o.brief(), tb=o.tb))
        return None
    obj = o.value
    for k in path:
        obj = obj[k]
    if type(obj) is not cls:
        ctx.violation("instantiate", f"wrong-type/{type(obj).__name__}-for-{cls.__name__}", dict(w, got=short(obj)))
        return None
    mine = [c for c in mod.CALLS if c[3] is obj]
    finals = [c for c in mine if c[0] == cls.__name__]
    # SubB records twice by design (Base.__init__ through super, then itself): count constructions by distinct object ids of that class
    built = {c[1] for c in mod.CALLS if c[0] == cls.__name__ and type(c[3]) is cls}
    if len(built) != 1:
        ctx.violation("instantiate", f"constructed-{len(built)}-times", dict(w, calls=[(c[0], c[2]) for c in mod.CALLS]))
        return None
    got = finals[-1][2] if finals else {}
    exp = expected_kwargs(mod, cls, ia, dk)
    for k, v in exp.items():
        if k not in got or same(got[k], v):
            ctx.violation("instantiate", f"constructor-argument-differs/{'dict_kwargs' if dk and k in dk else 'init_args'}", dict(w, parameter=k, expected=v, got=got.get(k, "<absent>"), all_got=short(got)))
            return None
    # exactly the configured arguments: what the parsed configuration holds as init_args (+ dict_kwargs), nothing else
    node = cfg
    for k in path:
        node = node[k]
    configured = dict(node.get("init_args").as_dict()) if node.get("init_args") is not None else {}
    configured.update(node.get("dict_kwargs") or {})
    if set(got) != set(configured):
        ctx.violation("instantiate", "constructor-arguments-are-not-the-configured-ones", dict(w, configured=sorted(configured), received=sorted(got)))
    return o.value


def case(ctx, i, rng):
    mod = family(ctx)
    M = mod.__name__
    hint_name, hint = rng.choice([("Base", mod.Base), ("Optional[Base]", Optional[mod.Base]), ("Union[Base,int]", Union[mod.Base, int])])
    p = parser_for(hint, mod)
    for kind, spec, exp in spec_cases(rng, mod):
        channel = rng.choice(["object", "argv-json", "string"])
        if channel == "object":
            o = call(p.parse_object, {"a": copy.deepcopy(spec)})
        elif channel == "argv-json":
            o = call(p.parse_args, [f"--a={json.dumps(spec)}"])
        else:
            o = call(p.parse_string, json.dumps({"a": spec}))
        ctx.evaluation(("spec", kind, hint_name, channel))
        ctx.count("mon.spec_decisions")
        ctx.count(f"st.spec.{kind}.{'accepted' if o.accepted else 'rejected'}")
        w = dict(kind=kind, hint=hint_name, channel=channel, spec=spec)
        if not (o.accepted or o.rejected):
            ctx.observe("escape (C03)", o.brief())
            continue
        if exp[0].startswith("accept"):
            if not o.accepted:
                ctx.violation("class_path", f"valid-spec-rejected/{kind}/{hint_name}", dict(w, outcome=o.brief()))
                continue
            if exp[0] == "accept":
                _, cls, ia, dk = exp
                got = o.value.a
                if not isinstance(got, Namespace) or got.get("class_path") != f"{M}.{cls.__name__}":
                    ctx.violation("class_path", f"accepted-spec-changed-class/{kind}", dict(w, result=short(got)))
                    continue
                check_instantiation(ctx, mod, p, o.value, cls, ia, dk, w)
        else:
            if o.accepted and o.value.a is not None and not isinstance(o.value.a, int):
                ctx.violation("class_path", f"invalid-spec-accepted/{kind}/{hint_name}", dict(w, result=short(o.value.a)))
            elif o.rejected and exp[0] == "reject-naming":
                msg = (o.exc_text or "") + o.stderr
                if exp[1] not in msg:
                    ctx.observe("error-does-not-name-key", dict(kind=kind, key=exp[1], error=short(msg, 300)))
    # abstract base
    pa = parser_for(mod.Abstract, mod)
    o = call(pa.parse_args, [f"--a={M}.Abstract"])
    ctx.count("mon.spec_decisions")
    if o.accepted:
        mod.CALLS.clear()
        oi = call(pa.instantiate_classes, o.value)
        if oi.accepted:
            ctx.violation("class_path", "abstract-class-instantiated", dict(result=short(oi.value)))
    o = call(pa.parse_args, ["--a=Concrete", "--a.k=7"])
    if not o.accepted:
        ctx.violation("class_path", "valid-spec-rejected/concrete-by-name/Abstract", dict(outcome=o.brief()))
    else:
        check_instantiation(ctx, mod, pa, o.value, mod.Concrete, {"k": 7}, None, dict(kind="concrete-by-name"))
    if rng.random() < 0.35:
        # a parse that fails while the defaults of the selected class are added must not influence what follows
        ob = call(parser_for(mod.Base, mod).parse_args, ["--a=BadDef"])
        ctx.count("ev.failing_parse_in_class_defaults." + ("rejected" if ob.rejected else ob.kind))
    if rng.random() < 0.3:
        # a command line rejected inside its --cfg after a class was chosen: nothing of it may influence later parses
        from jsonargparse import ActionConfigFile

        q = ArgumentParser(exit_on_error=False)
        q.add_argument("--cfg", action=ActionConfigFile)
        q.add_argument("--a", type=mod.Base)
        ob = call(q.parse_args, ["--a=SubB", "--a.q=true", "--cfg", rng.choice(["{", '{"a": {"init_args": {"zz": 1}}}', "/no/such/file.yaml"])])
        ctx.count("ev.rejected_cfg_after_class_choice." + ("rejected" if ob.rejected else ob.kind))
    short_vs_explicit(ctx, rng, mod)
    nested(ctx, rng, mod)
    class_change(ctx, rng, mod)
    two_sources(ctx, rng, mod)
    dict_kwargs_forms(ctx, rng, mod)
    if i % 6 == 3:
        late_subclass(ctx, i, rng, mod)


def dict_kwargs_forms(ctx, rng, mod):
    """dict_kwargs given by dotted sub-options, before / between / after other sub-options of the same argument (and with the
    class named again at the end): the same configuration as the explicit spec, and the constructor receives all of it"""
    M = mod.__name__
    nested_pos = rng.random() < 0.35
    ia = {"p0": rng.randrange(50)}
    dk = {"anything": rng.randrange(9), "more": rng.choice(["m", "n o"])}
    loose = {"class_path": f"{M}.Loose", "init_args": dict(ia), "dict_kwargs": dict(dk)}
    p = ArgumentParser(exit_on_error=False)
    if nested_pos:
        p.add_argument("--a", type=mod.Holder)
        explicit = call(p.parse_object, {"a": {"class_path": f"{M}.Holder", "init_args": {"child": loose, "n": 2}}})
        pre, head, tail, path = "--a.child", ["--a=Holder"], ["--a.n=2"], ("a",)
    else:
        p.add_argument("--a", type=mod.Base)
        explicit = call(p.parse_object, {"a": loose})
        pre, head, tail, path = "--a", [], [], ("a",)
    items = [rng.choice([f"{pre}.p0={ia['p0']}", f"{pre}.init_args.p0={ia['p0']}"]), f"{pre}.dict_kwargs.anything={dk['anything']}", f"{pre}.dict_kwargs.more={dk['more']}"]
    rng.shuffle(items)
    order = "kwargs-" + ("last" if items[0].split("=")[0].endswith("p0") else "first" if items[-1].split("=")[0].endswith("p0") else "around")
    again = rng.random() < 0.3
    argv = head + [f"{pre}=Loose"] + items + ([f"{pre}=Loose"] if again else []) + tail
    if nested_pos and rng.random() < 0.5:
        argv = head + tail + [f"{pre}=Loose"] + items
    o = call(p.parse_args, argv)
    ctx.count("mon.dict_kwargs_dotted_forms")
    ctx.evaluation(("dict_kwargs-forms", nested_pos, order, again))
    w = dict(kind="dict_kwargs-dotted", argv=argv)
    if not explicit.accepted:
        ctx.violation("class_path", "valid-spec-rejected/explicit-with-dict_kwargs", dict(w, outcome=explicit.brief()))
        return
    if not o.accepted:
        ctx.violation("short-forms", f"short-form-rejected/dict_kwargs-dotted/{order}", dict(w, outcome=o.brief()))
        return
    d = same(strip_prov(explicit.value).as_dict(), strip_prov(o.value).as_dict())
    if d:
        ctx.violation("short-forms", f"short-form-differs-from-explicit/dict_kwargs-dotted/{order}{'/class-named-again' if again else ''}{'/nested' if nested_pos else ''}", dict(w, explicit=short(explicit.value), short_form=short(o.value), at=d[0], why=d[1]))
        return
    if not nested_pos:
        check_instantiation(ctx, mod, p, o.value, mod.Loose, ia, dk, w)
    else:
        mod.CALLS.clear()
        oi = call(p.instantiate_classes, o.value)
        got = [c[2] for c in mod.CALLS if c[0] == "Loose"]
        if not oi.accepted or len(got) != 1 or got[0] != {**ia, **dk}:
            ctx.violation("instantiate", "nested/child-dict_kwargs-wrong", dict(w, outcome=oi.brief(), received=short(got)))


_LATE = {"n": 0}


def late_subclass(ctx, i, rng, mod):
    """a subclass that comes into existence (module written and imported) after name-only lookups for the same declared type
    already happened in this process: its bare name and its import path denote the same class"""
    M = mod.__name__
    p = parser_for(mod.Base, mod)
    call(p.parse_args, ["--a=SubA"])  # a name-only lookup before the new class exists
    _LATE["n"] += 1
    name = f"Late{ctx.shard}x{_LATE['n']}"
    src = f"from {M} import Base, rec\nclass {name}(Base):\n    def __init__(self, p0: int = 1, late: int = 0):\n        self.p0, self.late = p0, late\n        rec(self, p0=p0, late=late)\n"
    lm, lpath = programs.write_module(ctx.workdir, src, "c14late")
    try:
        cls = getattr(lm, name)
        ia = {"late": rng.randrange(1, 9)}
        byname = call(p.parse_args, [f"--a={name}", f"--a.late={ia['late']}"])
        bypath = call(p.parse_args, [f"--a={lm.__name__}.{name}", f"--a.late={ia['late']}"])
        ctx.count("mon.subclass_defined_after_first_name_lookup")
        ctx.evaluation(("late-subclass", i % 3))
        w = dict(kind="late-subclass", name=name)
        if not bypath.accepted:
            ctx.violation("class_path", "valid-spec-rejected/late-subclass-by-path", dict(w, outcome=bypath.brief()))
            return
        if not byname.accepted:
            ctx.violation("short-forms", "short-form-rejected/name-of-a-subclass-defined-after-earlier-lookups", dict(w, outcome=byname.brief()))
            return
        d = same(strip_prov(bypath.value).as_dict(), strip_prov(byname.value).as_dict())
        if d:
            ctx.violation("short-forms", "short-form-differs-from-explicit/late-subclass", dict(w, explicit=short(bypath.value), short_form=short(byname.value), at=d[0], why=d[1]))
            return
        mod.CALLS.clear()
        oi = call(p.instantiate_classes, byname.value)
        if not oi.accepted or type(oi.value.a) is not cls or oi.value.a.late != ia["late"]:
            ctx.violation("instantiate", "late-subclass-not-built-as-configured", dict(w, outcome=oi.brief()))
    finally:
        programs.forget(lm, lpath)


def two_sources(ctx, rng, mod):
    """A class chosen by an earlier source, then a later source that gives only init_args (short form) for that position,
    judged against the same later source written with its class_path: positions are a plain option, an entry of a
    Dict[str, Base] (not only the first one), an item addressed inside a class group of a subcommand."""
    from jsonargparse import ActionConfigFile

    M = mod.__name__
    ia1 = {"SubA": {"p0": rng.randrange(9), "extra": 0.25}, "SubB": {"q": True, "p0": 5}}
    later = {"SubA": {"extra": rng.choice([1.5, 2.5])}, "SubB": {"q": False}}
    where = rng.choice(["dict-entry", "dict-entry", "subcommand-class-group", "subcommand-class-group-dict-entry", "plain"])
    names = rng.sample(["k1", "k2", "k3"], rng.choice([2, 3]))
    classes = {n: rng.choice(["SubA", "SubB"]) for n in names}
    target = rng.choice(names)
    spec = lambda c, ia: {"class_path": f"{M}.{c}", "init_args": dict(ia)}  # noqa: E731

    def build():
        p = ArgumentParser(exit_on_error=False)
        p.add_argument("--cfg", action=ActionConfigFile)
        if where in ("dict-entry",):
            p.add_argument("--named", type=Dict[str, mod.Base])
        elif where == "plain":
            p.add_argument("--one", type=mod.Base)
        else:
            sc = p.add_subcommands()
            fit = ArgumentParser(exit_on_error=False)
            fit.add_class_arguments(mod.Holder, "model")
            sc.add_subcommand("fit", fit)
        return p

    if where == "dict-entry":
        first = {"named": {n: spec(classes[n], ia1[classes[n]]) for n in names}}
        again = [n for n in names if n == target or rng.random() < 0.6]  # the later source may address several entries
        second_short = {"named": {n: {"init_args": later[classes[n]]} for n in again}}
        second_explicit = {"named": {n: spec(classes[n], later[classes[n]]) for n in again}}
        tail = []
        get = lambda cfg: cfg.named[target]  # noqa: E731
    elif where == "plain":
        c = classes[target]
        first, second_short, second_explicit = {"one": spec(c, ia1[c])}, {"one": {"init_args": later[c]}}, {"one": spec(c, later[c])}
        tail = []
        get = lambda cfg: cfg.one  # noqa: E731
    elif where == "subcommand-class-group":
        c = classes[target]
        first = {"fit": {"model": {"child": spec(c, ia1[c])}}}
        second_short = {"fit": {"model": {"child": {"init_args": later[c]}}}}
        second_explicit = {"fit": {"model": {"child": spec(c, later[c])}}}
        tail = ["fit"]
        get = lambda cfg: cfg.fit.model.child  # noqa: E731
    else:
        first = {"fit": {"model": {"child": spec("SubA", {}), "named": {n: spec(classes[n], ia1[classes[n]]) for n in names}}}}
        again = [n for n in names if n == target or rng.random() < 0.6]
        second_short = {"fit": {"model": {"named": {n: {"init_args": later[classes[n]]} for n in again}}}}
        second_explicit = {"fit": {"model": {"named": {n: spec(classes[n], later[classes[n]]) for n in again}}}}
        tail = ["fit"]
        get = lambda cfg: cfg.fit.model.named[target]  # noqa: E731
    outs = {}
    for form, second in (("short", second_short), ("explicit", second_explicit)):
        outs[form] = call(build().parse_args, [f"--cfg={json.dumps(first)}", f"--cfg={json.dumps(second)}"] + tail)
    ctx.count("mon.two_source_short_forms")
    ctx.count(f"st.two_sources.{where}")
    ctx.evaluation(("two-sources", where, classes[target], names.index(target)))
    pos = "single"
    if where.endswith("dict-entry"):
        pos = "first-entry" if target == again[0] else "later-entry"
    w = dict(where=where, first=first, second_short=second_short, second_explicit=second_explicit)
    if not outs["explicit"].accepted:
        ctx.violation("short-forms", f"two-sources/explicit-form-rejected/{where}", dict(w, outcome=outs["explicit"].brief()))
        return
    if not outs["short"].accepted:
        ctx.violation("short-forms", f"two-sources/short-form-rejected/{where}/{pos}", dict(w, outcome=outs["short"].brief()))
        return
    try:
        a, b = get(outs["short"].value), get(outs["explicit"].value)
    except Exception as ex:
        ctx.violation("short-forms", f"two-sources/position-missing/{where}", dict(w, error=repr(ex)))
        return
    # the explicit form names the same class again: per the class-change rule the earlier init_args it accepts are kept as well
    d = same(b.as_dict() if isinstance(b, Namespace) else b, a.as_dict() if isinstance(a, Namespace) else a)
    if d:
        ctx.violation("short-forms", f"two-sources/short-form-differs-from-explicit/{where}/{pos}", dict(w, explicit=short(b), short_form=short(a), at=d[0], why=d[1]))


def short_vs_explicit(ctx, rng, mod):
    M = mod.__name__
    cls = rng.choice([mod.SubA, mod.SubB, mod.Req, mod.Loose, mod.Base])
    ia = valid_init_args(rng, mod, cls)
    if cls is mod.SubB:
        ia.pop("p0", None)
    p = parser_for(mod.Base, mod)
    explicit = call(p.parse_object, {"a": {"class_path": f"{M}.{cls.__name__}", "init_args": dict(ia)}})
    if not explicit.accepted:
        ctx.violation("class_path", f"valid-spec-rejected/explicit/{cls.__name__}", dict(init_args=ia, outcome=explicit.brief()))
        return
    ref = strip_prov(explicit.value)
    forms = {}
    txt = lambda v: v if isinstance(v, str) else json.dumps(v)  # noqa: E731
    forms["name-then-dotted"] = [f"--a={cls.__name__}"] + [f"--a.{k}={txt(v)}" for k, v in ia.items()]
    forms["path-then-init_args-dotted"] = [f"--a={M}.{cls.__name__}"] + [f"--a.init_args.{k}={txt(v)}" for k, v in ia.items()]
    forms["class_path-option"] = [f"--a.class_path={M}.{cls.__name__}"] + [f"--a.init_args.{k}={txt(v)}" for k, v in ia.items()]
    forms["json-with-name"] = [f"--a={json.dumps({'class_path': cls.__name__, 'init_args': ia})}"]
    forms["name-then-json-init_args"] = [f"--a={cls.__name__}", f"--a={json.dumps({'init_args': ia})}"] if ia else [f"--a={cls.__name__}"]
    forms["space-form"] = ["--a", cls.__name__] + [x for k, v in ia.items() for x in (f"--a.{k}", txt(v))] if not any(txt(v).startswith("-") for v in ia.values()) else forms["name-then-dotted"]
    for name, argv in forms.items():
        o = call(p.parse_args, argv)
        ctx.count("mon.short_vs_explicit")
        ctx.evaluation(("short", name, cls.__name__, tuple(sorted(ia))))
        if not o.accepted:
            ctx.violation("short-forms", f"short-form-rejected/{name}/{cls.__name__}", dict(argv=argv, outcome=o.brief()))
            continue
        d = same(ref.as_dict(), strip_prov(o.value).as_dict())
        if d:
            ctx.violation("short-forms", f"short-form-differs-from-explicit/{name}/{cls.__name__ if cls.__name__ in ('SubB',) else 'any'}", dict(argv=argv, explicit=short(ref), short_form=short(o.value), at=d[0], why=d[1]))
    # init_args without class_path use the default class
    from jsonargparse import lazy_instance

    pd = parser_for(mod.Base, mod, default=lazy_instance(mod.SubA, p0=11))
    o = call(pd.parse_args, ["--a.init_args.extra=0.125"] if rng.random() < 0.5 else ["--a.extra=0.125"])
    o2 = call(pd.parse_string, json.dumps({"a": {"init_args": {"extra": 0.125}}}))
    for how, oo in (("argv", o), ("string", o2)):
        ctx.count("mon.short_vs_explicit")
        if not oo.accepted:
            ctx.violation("short-forms", f"init_args-without-class_path-rejected/{how}", dict(outcome=oo.brief()))
        elif oo.value.a.get("class_path") != f"{M}.SubA" or oo.value.a.init_args.get("extra") != 0.125 or oo.value.a.init_args.get("p0") != 11:
            ctx.violation("short-forms", f"init_args-without-class_path-wrong-class-or-args/{how}", dict(result=short(oo.value.a)))


def nested(ctx, rng, mod):
    M = mod.__name__
    p = ArgumentParser(exit_on_error=False)
    p.add_argument("--h", type=mod.Holder)
    child_cls = rng.choice([mod.SubA, mod.Base, mod.Req])
    cia = valid_init_args(rng, mod, child_cls)
    many = [{"class_path": f"{M}.SubA", "init_args": {"p0": 21}}, {"class_path": f"{M}.Base", "init_args": {"p1": "mm"}}] if rng.random() < 0.6 else None
    if many is not None and rng.random() < 0.6:
        many.append({"class_path": f"{M}.Loose", "init_args": {"p0": 23}, "dict_kwargs": {"extra_kw": 99}})
    named = {"k1": {"class_path": f"{M}.SubA", "init_args": {"extra": 3.5}}} if rng.random() < 0.5 else None
    either = rng.choice([7, {"class_path": f"{M}.Base", "init_args": {"p0": 31}}])
    spec = {"class_path": f"{M}.Holder", "init_args": {"child": {"class_path": f"{M}.{child_cls.__name__}", "init_args": cia}, "n": 2, "many": many, "named": named, "either": either}}
    o = call(p.parse_object, {"h": copy.deepcopy(spec)})
    ctx.count("mon.nested")
    ctx.evaluation(("nested", child_cls.__name__, many is not None, named is not None, isinstance(either, dict)))
    w = dict(kind="nested", spec=spec)
    if not o.accepted:
        ctx.violation("class_path", f"valid-spec-rejected/nested/{child_cls.__name__}", dict(w, outcome=o.brief()))
        return
    mod.CALLS.clear()
    oi = call(p.instantiate_classes, o.value)
    if not oi.accepted:
        ctx.violation("instantiate", f"instantiate-failed/{oi.exc_type}", dict(w, outcome=oi.brief(), tb=oi.tb))
        return
    h = oi.value.h
    order = [c[0] for c in mod.CALLS]
    if type(h) is not mod.Holder or order.count("Holder") != 1:
        ctx.violation("instantiate", "nested/holder-wrong-type-or-count", dict(w, calls=order))
        return
    if order[-1] != "Holder":
        ctx.violation("instantiate", "nested/child-built-after-holder", dict(w, calls=order))
        return
    hk = [c for c in mod.CALLS if c[0] == "Holder"][0][2]
    if type(hk["child"]) is not child_cls:
        ctx.violation("instantiate", f"nested/child-not-passed-as-object/{type(hk['child']).__name__}", dict(w, got=short(hk["child"])))
        return
    for k, v in cia.items():
        if getattr(hk["child"], k, None) != v:
            ctx.violation("instantiate", "nested/child-argument-differs", dict(w, parameter=k, expected=v, got=getattr(hk["child"], k, None)))
            return
    if many is not None and (not isinstance(hk["many"], list) or [type(x).__name__ for x in hk["many"]][:2] != ["SubA", "Base"] or hk["many"][0].p0 != 21):
        ctx.violation("instantiate", "nested/list-of-classes-wrong", dict(w, got=short(hk["many"])))
    if many is not None and len(many) == 3:
        # the same configuration instantiated again must build the list items with the same arguments (dict_kwargs included)
        for attempt in (1, 2):
            lo = [x for x in hk["many"] if type(x).__name__ == "Loose"]
            if not lo or lo[0].kw != {"extra_kw": 99} or lo[0].p0 != 23:
                ctx.violation("instantiate", f"nested/list-item-dict_kwargs-wrong/instantiate-call-{attempt}", dict(w, got=short([vars(x) for x in lo])))
                break
            mod.CALLS.clear()
            o2 = call(p.instantiate_classes, o.value)
            if not o2.accepted:
                ctx.violation("instantiate", f"second-instantiate-failed/{o2.exc_type}", dict(w, outcome=o2.brief()))
                break
            hk = [c for c in mod.CALLS if c[0] == "Holder"][0][2]
        return
    if named is not None and (not isinstance(hk["named"], dict) or type(hk["named"].get("k1")).__name__ != "SubA" or hk["named"]["k1"].extra != 3.5):
        ctx.violation("instantiate", "nested/dict-of-classes-wrong", dict(w, got=short(hk["named"])))
    if isinstance(either, dict) and (type(hk["either"]).__name__ != "Base" or hk["either"].p0 != 31):
        ctx.violation("instantiate", "nested/union-class-wrong", dict(w, got=short(hk["either"])))
    if not isinstance(either, dict) and hk["either"] != 7:
        ctx.violation("instantiate", "nested/union-int-wrong", dict(w, got=short(hk["either"])))
    # exactly once each
    ids = [c[1] for c in mod.CALLS if c[0] != "Base" or type(c[3]).__name__ == "Base"]
    n_expected = 1 + 1 + (len(many) if many else 0) + (1 if named else 0) + (1 if isinstance(either, dict) else 0)
    if len(set(ids)) != n_expected:
        ctx.violation("instantiate", "nested/number-of-constructed-objects-differs", dict(w, expected=n_expected, calls=order))


def class_change(ctx, rng, mod):
    """class changed between sources: init_args valid for the new class are kept, others discarded; result must be valid for the new class"""
    M = mod.__name__
    p = parser_for(mod.Base, mod)
    seqs = [
        ([f"--a=SubA", "--a.extra=0.25", "--a.p0=5", f"--a=Req", "--a.need=1"], "Req", {"need": 1, "p0": 5}),
        ([f"--a=Req", "--a.need=2", "--a=SubA"], "SubA", {}),
        ([f"--a=SubA", "--a.tags=[\"t\"]", f"--a={M}.Base"], "Base", {}),
        ([f"--a=SubB", "--a.q=true", "--a=SubA", "--a.extra=1.5"], "SubA", {"extra": 1.5}),
        (["--a=SubA", "--a.p0=8", "--a=SubA"], "SubA", {"p0": 8}),
        (["--a=Loose", "--a.dict_kwargs.z=1", "--a=SubA"], "SubA", {}),
        (["--a=Loose", "--a.p0=6", "--a.dict_kwargs.z=1", f"--a={M}.Base"], "Base", {"p0": 6}),
    ]
    argv, cname, must = rng.choice(seqs)
    o = call(p.parse_args, argv)
    ctx.count("mon.class_change")
    ctx.evaluation(("change", tuple(argv)))
    if not o.accepted:
        ctx.violation("class_path", f"class-change-rejected/{cname}", dict(argv=argv, outcome=o.brief()))
        return
    a = o.value.a
    if a.class_path != f"{M}.{cname}":
        ctx.violation("class_path", "class-change-wrong-class", dict(argv=argv, result=short(a)))
        return
    cls = getattr(mod, cname)
    params = set(inspect.signature(cls.__init__).parameters) - {"self"}
    ia = a.get("init_args", Namespace()).as_dict() if a.get("init_args") is not None else {}
    stale = set(ia) - params
    if stale and "kwargs" not in params and "kw" not in params:
        ctx.violation("class_path", "class-change-keeps-stale-init_args", dict(argv=argv, stale=sorted(stale), result=short(a)))
        return
    if a.get("dict_kwargs") and "kwargs" not in params and "kw" not in params:
        ctx.violation("class_path", "class-change-keeps-dict_kwargs-of-previous-class", dict(argv=argv, result=short(a)))
        return
    for k, v in must.items():
        if ia.get(k) != v:
            ctx.violation("class_path", "class-change-loses-valid-init_arg", dict(argv=argv, parameter=k, expected=v, result=short(a)))
            return
    # what no source configured has the default of the class that was finally chosen, not of one named before it
    given = {t.split("=")[0].split(".")[-1] for t in argv if t.startswith("--a.")}
    for k, prm in inspect.signature(cls.__init__).parameters.items():
        if k in ia and k not in given and prm.default is not inspect.Parameter.empty and prm.kind == prm.POSITIONAL_OR_KEYWORD:
            ctx.count("mon.class_change_untouched_parameter_has_own_default")
            if ia[k] != prm.default:
                ctx.violation("class_path", "class-change-keeps-default-of-previous-class", dict(argv=argv, parameter=k, expected=prm.default, result=short(a)))
                return
    check_instantiation(ctx, mod, p, o.value, cls, must, None, dict(kind="class-change", argv=argv))
    # a class change in one parse leaves the declared default spec alone: the next plain parse on the same parser gives the
    # default class with its configured init_args, as a fresh parser does
    from jsonargparse import lazy_instance

    mk = lambda: parser_for(mod.Base, mod, default=lazy_instance(mod.SubA, p0=11, extra=3.0))  # noqa: E731
    pd = mk()
    first = rng.choice([(["--a=Req", "--a.need=1"], {"defaults": False}), (["--a=SubB"], {"defaults": False}), (["--a=Req", "--a.need=2"], {}), ([f"--a={M}.Base"], {"defaults": False})])
    o1 = call(pd.parse_args, list(first[0]), **first[1])
    o2, o3 = call(pd.parse_args, []), call(mk().parse_args, [])
    ctx.count("mon.default_spec_after_class_change")
    if o2.accepted and o3.accepted:
        d = same(strip_prov(o3.value).as_dict(), strip_prov(o2.value).as_dict())
        if d:
            ctx.violation("class_path", "default-spec-changed-by-an-earlier-class-change", dict(first_parse=first[0], first_kwargs=first[1], first_outcome=o1.brief(), fresh=short(o3.value), reused=short(o2.value), at=d[0], why=d[1]))
    elif o2.accepted != o3.accepted:
        ctx.violation("class_path", "default-spec-changed-by-an-earlier-class-change", dict(first_parse=first[0], fresh=o3.brief(), reused=o2.brief()))


def run_shard(ctx):
    for i, rng in ctx.cases():
        case(ctx, i, rng)
        if i == 0:
            ctx.sample(dict(family_source=FAMILY[:600]))
