"""C06 — unknown keys are never silently ignored; required keys are enforced.

Mutation monitor: from a valid configuration tree of a generated parser, one foreign key with a unique
token name is inserted at each node where the parser defines the keys, or one required key is
removed / nulled; every channel must reject and the error must name the key."""

from __future__ import annotations

import copy
import json
import os
from typing import List, Optional

from jsonargparse import ActionConfigFile, ActionParser, ArgumentParser

from vf.fixtures import zoo
from vf.util import call, short

TOKENS = ["zzq7f3", "optim", "mom", "zz_unknown", "n", "items", "init_args_x", "class_pathx", "x+", "zzq+", "a_", "A"]


def build_template(rng, eoe=False):
    """-> (factory, valid nested config, insertion nodes [(path, kind)], required [(path, kind)], argv-only positionals)"""
    feats = {f for f in ["group", "dataclass", "list_dataclass", "class", "nested_class", "list_class", "class_group", "inner_parser", "sub", "sub2", "optional_dc", "dict_class"] if rng.random() < 0.55}
    reqs = {f for f in ["req_option", "req_dataclass_field", "req_class_param", "req_class_group", "req_subcommand", "req_subclass_args", "req_nested", "req_level2"] if rng.random() < 0.45}
    if "sub2" in feats:
        feats.add("sub")
    n = rng.randrange(100)

    def factory():
        p = ArgumentParser(exit_on_error=eoe, prog="app", env_prefix="APP")
        p.add_argument("--cfg", action=ActionConfigFile)
        p.add_argument("--top", type=int, default=n)
        p.add_argument("--optimizer.lr", type=float, default=0.1)  # a name whose prefixes are tempting
        p.add_argument("--optimizer.momentum", type=float, default=0.9)
        if "group" in feats:
            p.add_argument("--g.x", type=int, default=1)
            p.add_argument("--g.h.y", type=str, default="y")
        if "dataclass" in feats:
            p.add_argument("--dc", type=zoo.Outer, default=zoo.Outer())
        if "optional_dc" in feats:
            p.add_argument("--odc", type=Optional[zoo.Point])
        if "list_dataclass" in feats:
            p.add_argument("--pts", type=List[zoo.Point], default=[])
        if "class" in feats:
            p.add_argument("--m", type=zoo.Base)
        if "nested_class" in feats:
            p.add_argument("--holder", type=zoo.Holder)
        if "list_class" in feats:
            p.add_argument("--ms", type=List[zoo.Base])
        if "dict_class" in feats:
            from typing import Dict

            p.add_argument("--dm", type=Dict[str, zoo.Base])
        if "class_group" in feats:
            p.add_class_arguments(zoo.SubB, "cg")
        if "inner_parser" in feats:
            inner = ArgumentParser(exit_on_error=eoe)
            inner.add_argument("--i1", type=int, default=2)
            inner.add_argument("--deep.i2", type=str, default="d")
            p.add_argument("--inner", action=ActionParser(parser=inner))
        if "req_option" in reqs:
            p.add_argument("--req", type=int, required=True)
        if "req_nested" in reqs:
            p.add_argument("--rg.need", type=str, required=True)
        if "req_dataclass_field" in reqs:
            p.add_argument("--rdc", type=zoo.Req)
        if "req_class_group" in reqs:
            p.add_class_arguments(zoo.SubReq, "rcg")
        if "req_class_param" in reqs:
            p.add_argument("--rm", type=zoo.Base)
        if "req_subclass_args" in reqs:
            p.add_subclass_arguments(zoo.Base, "rsub", required=True)
        if "sub" in feats or "req_subcommand" in reqs:
            sc = p.add_subcommands(required="req_subcommand" in reqs)
            a = ArgumentParser(exit_on_error=eoe)
            a.add_argument("--ax", type=int, default=3)
            a.add_argument("--scheduler.gamma", type=float, default=0.5)
            a.add_argument("--adc", type=zoo.Point, default=zoo.Point())
            sc.add_subcommand("fit", a)
            b = ArgumentParser(exit_on_error=eoe)
            b.add_argument("--bx", type=str, default="b")
            if "req_subcommand" in reqs:
                b.add_argument("--breq", type=int, required=True)
            sc.add_subcommand("test", b)
            if "sub2" in feats:
                sc2 = a.add_subcommands(required=False, dest="cmd")
                c = ArgumentParser(exit_on_error=eoe)
                c.add_argument("--cx", type=int, default=4)
                c.add_argument("--cm", type=zoo.Base)
                if "req_level2" in reqs:
                    c.add_argument("--creq", type=int, required=True)
                sc2.add_subcommand("deep", c)
        return p

    cfg = {"top": n + 1}
    nodes = [((), "top"), (("optimizer",), "group-dotted")]
    cfg["optimizer"] = {"lr": 0.2}
    required = []
    if "group" in feats:
        cfg["g"] = {"x": 5, "h": {"y": "w"}}
        nodes += [(("g",), "group"), (("g", "h"), "group-nested")]
    if "dataclass" in feats:
        cfg["dc"] = {"inner": {"name": "nm", "tags": ["t"], "color": "blue"}, "count": 2, "pt": {"x": 1, "y": 2.0}, "ratio": 0.25}
        nodes += [(("dc",), "dataclass"), (("dc", "inner"), "dataclass-nested"), (("dc", "pt"), "dataclass-nested")]
    if "optional_dc" in feats:
        cfg["odc"] = {"x": 3, "y": 0.5}
        nodes.append((("odc",), "dataclass-optional"))
    if "list_dataclass" in feats:
        cfg["pts"] = [{"x": 1, "y": 1.0}, {"x": 2, "y": 2.0}]
        nodes.append((("pts", 1), "dataclass-in-list"))
    if "class" in feats:
        cfg["m"] = {"class_path": "vf.fixtures.zoo.SubA", "init_args": {"a": 4, "b": "q"}}
        nodes.append((("m", "init_args"), "init_args"))
        if rng.random() < 0.5:
            # SubA.__init__ has no **kwargs: nothing given below dict_kwargs can reach it, so every key there is foreign
            cfg["m"]["dict_kwargs"] = {}
            nodes.append((("m", "dict_kwargs"), "dict_kwargs-of-class-without-var-keyword"))
    if "nested_class" in feats:
        cfg["holder"] = {"class_path": "vf.fixtures.zoo.Holder", "init_args": {"n": 1, "child": {"class_path": "vf.fixtures.zoo.SubB", "init_args": {"c": 0.75, "flag": True}}}}
        nodes += [(("holder", "init_args"), "init_args"), (("holder", "init_args", "child", "init_args"), "init_args-nested")]
    if "list_class" in feats:
        cfg["ms"] = [{"class_path": "vf.fixtures.zoo.Base", "init_args": {"a": 1}}, {"class_path": "vf.fixtures.zoo.SubA", "init_args": {"a": 2, "b": "z"}}]
        nodes.append((("ms", 1, "init_args"), "init_args-in-list"))
    if "dict_class" in feats:
        cfg["dm"] = {"k1": {"class_path": "vf.fixtures.zoo.SubA", "init_args": {"a": 7}}}
        nodes.append((("dm", "k1", "init_args"), "init_args-in-dict"))
    if "class_group" in feats:
        cfg["cg"] = {"c": 0.25, "flag": True}
        nodes.append((("cg",), "class-group"))
    if "inner_parser" in feats:
        cfg["inner"] = {"i1": 9, "deep": {"i2": "e"}}
        nodes += [(("inner",), "inner-parser"), (("inner", "deep"), "inner-parser-nested")]
    if "req_option" in reqs:
        cfg["req"] = 1
        required.append((("req",), "required-option"))
    if "req_nested" in reqs:
        cfg["rg"] = {"need": "v"}
        required.append((("rg", "need"), "required-nested-option"))
    if "req_dataclass_field" in reqs:
        cfg["rdc"] = {"need": 5, "opt": "o"}
        required.append((("rdc", "need"), "required-dataclass-field"))
        nodes.append((("rdc",), "dataclass"))
    if "req_class_group" in reqs:
        cfg["rcg"] = {"need": 6, "a": 3}
        required.append((("rcg", "need"), "required-class-group-param"))
    if "req_class_param" in reqs:
        cfg["rm"] = {"class_path": "vf.fixtures.zoo.SubReq", "init_args": {"need": 7, "a": 1}}
        required.append((("rm", "init_args", "need"), "required-param-of-selected-class"))
    if "req_subclass_args" in reqs:
        cfg["rsub"] = {"class_path": "vf.fixtures.zoo.SubA", "init_args": {"a": 1}}
        required.append((("rsub",), "required-subclass-argument"))
    if "sub" in feats or "req_subcommand" in reqs:
        which = rng.choice(["fit", "test"] + (["fit", "fit"] if "sub2" in feats else []))
        cfg["subcommand"] = which
        if which == "fit":
            cfg["fit"] = {"ax": 30, "scheduler": {"gamma": 0.25}, "adc": {"x": 1, "y": 1.5}}
            nodes += [(("fit",), "subcommand-section"), (("fit", "scheduler"), "subcommand-group"), (("fit", "adc"), "subcommand-dataclass")]
            if "sub2" in feats:
                cfg["fit"]["cmd"] = "deep"
                cfg["fit"]["deep"] = {"cx": 40, "cm": {"class_path": "vf.fixtures.zoo.SubA", "init_args": {"a": 3}}}
                nodes += [(("fit", "deep"), "subcommand-section-level2"), (("fit", "deep", "cm", "init_args"), "init_args-in-subcommand")]
                if "req_level2" in reqs:
                    cfg["fit"]["deep"]["creq"] = 9
                    required.append((("fit", "deep", "creq"), "required-option-of-subcommand-level2"))
        else:
            cfg["test"] = {"bx": "bb"}
            nodes.append((("test",), "subcommand-section"))
            if "req_subcommand" in reqs:
                cfg["test"]["breq"] = 8
                required.append((("test", "breq"), "required-option-of-subcommand"))
                if rng.random() < 0.5:
                    del cfg["test"]["bx"]  # the required option is the only setting given for the subcommand
        if "req_subcommand" in reqs:
            required.append((("subcommand",), "required-subcommand"))
    return factory, cfg, nodes, required


def get_node(cfg, path):
    cur = cfg
    for p in path:
        cur = cur[p]
    return cur


def to_argv(cfg):
    """flat argv for a nested config (subcommands last)"""
    argv, tail = [], []
    sub = cfg.get("subcommand")

    def rec(d, prefix, out):
        for k, v in d.items():
            if prefix == "" and k in ("subcommand", sub):
                continue
            if isinstance(v, dict) and "class_path" not in v and k not in ("dm",):
                rec(v, prefix + k + ".", out)
            else:
                out.append(f"--{prefix}{k}={v if isinstance(v, str) else json.dumps(v)}")

    rec(cfg, "", argv)
    if sub:
        tail = [sub]
        sect = dict(cfg.get(sub, {}))
        sub2 = sect.pop("cmd", None)
        sect2 = sect.pop(sub2, None) if sub2 else None
        rec(sect, "", tail)
        if sub2:
            tail.append(sub2)
            rec(sect2 or {}, "", tail)
    return argv + tail


def channels(p_factory, cfg, workdir, n, with_argv=None, env=None, nodefaults=False):
    outs = {}
    text = json.dumps(cfg)
    outs["object"] = call(p_factory().parse_object, copy.deepcopy(cfg))
    outs["string"] = call(p_factory().parse_string, text)
    outs["cfg_string"] = call(p_factory().parse_args, [f"--cfg={text}"])
    path = os.path.join(workdir, f"c6_{n % 20}.json")
    with open(path, "w") as f:
        f.write(text)
    outs["cfg_file"] = call(p_factory().parse_args, ["--cfg", path])
    outs["path"] = call(p_factory().parse_path, path)
    if with_argv is not None:
        outs["argv"] = call(p_factory().parse_args, with_argv)
    if nodefaults:
        # only what is given, no defaults merged in: unknown keys and missing required ones are reported all the same
        outs["object_nodefaults"] = call(p_factory().parse_object, copy.deepcopy(cfg), defaults=False)
        outs["string_nodefaults"] = call(p_factory().parse_string, text, defaults=False)
    return outs


def case(ctx, i, rng):
    eoe = rng.random() < 0.25
    factory0, cfg, nodes, required = build_template(rng, eoe)
    shared = factory0()
    factory = (lambda: shared) if i % 5 else factory0  # mostly one parser per case (fresh parsers for every call in 1 of 5 cases)
    # the valid configuration must be accepted everywhere (otherwise the template is wrong: inconclusive for this case)
    base = channels(factory, cfg, ctx.workdir, i, with_argv=to_argv(cfg))
    bad = {k: o.brief() for k, o in base.items() if not o.accepted}
    if bad:
        ctx.count("template_valid_config_rejected")
        ctx.observe("valid-template-config-rejected", dict(cfg=short(cfg, 500), outcomes=bad))
        return
    ctx.count("mon.valid_baseline_accepted")
    # ---- foreign key insertion ----
    if ctx.tier == "quick" and len(nodes) > 7:
        nodes = rng.sample(nodes, 7)
    for path, kind in nodes:
        token = rng.choice(TOKENS[:3]) if rng.random() < 0.5 else rng.choice(TOKENS)
        node = get_node(cfg, path)
        if token in node or token.rstrip("+") in node:
            token = "zzq7f3"
        for value in (1, {}, {"a": 1}, None)[: 2 if ctx.tier == "quick" else 4]:
            mutated = copy.deepcopy(cfg)
            get_node(mutated, path)[token] = value
            argv = None
            if all(isinstance(x, str) for x in path) and "init_args" not in path and not token.endswith("+") and value == 1 and token in ("zzq7f3", "zz_unknown"):  # argparse accepts unambiguous prefixes of option names
                # same foreign key as a command line option (dotted)
                sub = cfg.get("subcommand")
                if path and path[0] == sub:
                    base_argv = to_argv(cfg)
                    argv = base_argv + [f"--{'.'.join(path[1:] + (token,)) if len(path) > 1 else token}=1"] if "cmd" not in cfg.get(sub, {}) else None
                else:
                    base_argv = to_argv(cfg)
                    pos = base_argv.index(sub) if sub in base_argv else len(base_argv)
                    argv = base_argv[:pos] + [f"--{'.'.join(path + (token,))}=1"] + base_argv[pos:]
            outs = channels(factory, mutated, ctx.workdir, i, with_argv=argv)
            vcls = {1: "scalar", None: "null"}.get(value, "empty-mapping" if value == {} else "mapping") if not isinstance(value, dict) else ("empty-mapping" if value == {} else "mapping")
            tcls = "plus-suffix" if token.endswith("+") else ("prefix-of-defined" if token in ("optim", "mom", "n", "a_", "A") else "plain")
            for ch, o in outs.items():
                ctx.count("mon.foreign_key_insertions")
                ctx.count(f"st.node.{kind}")
                ctx.count(f"st.channel.{ch}")
                ctx.evaluation(("ins", kind, ch, vcls, tcls, tuple(sorted(cfg))))
                if o.accepted:
                    ctx.violation("unknown-key", f"foreign-key-accepted/{kind}/{ch_family(ch)}/{vcls}/{tcls}", dict(path=path, token=token, value=value, channel=ch, config=short(mutated, 700), result=short(o.value, 400)))
                elif not o.rejected:
                    ctx.observe("escape (C03)", o.brief())
                else:
                    msg = (o.exc_text or "") + o.stderr
                    if token.rstrip("+") not in msg:
                        ctx.violation("unknown-key", f"error-does-not-name-key/{kind}/{ch_family(ch)}/{vcls}", dict(path=path, token=token, channel=ch, error=short(msg, 500)))
    # ---- required keys ----
    for path, kind in required:
        for how in ("removed", "nulled"):
            mutated = copy.deepcopy(cfg)
            parent = get_node(mutated, path[:-1])
            if how == "removed":
                del parent[path[-1]]
                if kind == "required-subcommand":
                    mutated.pop(cfg["subcommand"], None)
            else:
                parent[path[-1]] = None
                if kind == "required-subcommand":
                    mutated.pop(cfg["subcommand"], None)  # otherwise the section itself determines the subcommand (C17)
            argv = None
            if how == "removed" and kind in ("required-option", "required-nested-option", "required-option-of-subcommand", "required-option-of-subcommand-level2", "required-class-group-param", "required-dataclass-field", "required-subclass-argument"):
                argv = to_argv(mutated)
            outs = channels(factory, mutated, ctx.workdir, i, with_argv=argv, nodefaults=True)
            for ch, o in outs.items():
                ctx.count("mon.required_key_mutations")
                ctx.count(f"st.required.{kind}")
                ctx.evaluation(("req", kind, how, ch))
                if o.accepted:
                    ctx.violation("required", f"missing-required-accepted/{kind}/{how}/{ch_family(ch)}", dict(path=path, how=how, channel=ch, config=short(mutated, 700), result=short(o.value, 400)))
                elif o.rejected:
                    msg = (o.exc_text or "") + o.stderr
                    name = path[-1] if kind != "required-subclass-argument" else "rsub"
                    if str(name) not in msg:
                        ctx.observe("required-error-does-not-name-key", dict(kind=kind, error=short(msg, 200)))
    # ---- the section that holds a required option of a subcommand is given, but empty; nothing is filled in from defaults ----
    for path, kind in required:
        if kind not in ("required-option-of-subcommand", "required-option-of-subcommand-level2"):
            continue
        mutated = copy.deepcopy(cfg)
        get_node(mutated, path[:-2])[path[-2]] = {}
        outs = {
            "object_nodefaults": call(factory().parse_object, copy.deepcopy(mutated), defaults=False),
            "string_nodefaults": call(factory().parse_string, json.dumps(mutated), defaults=False),
            "argv_nodefaults": call(factory().parse_args, [str(x) for x in path[:-1]], defaults=False),
        }
        for ch, o in outs.items():
            ctx.count("mon.required_key_mutations")
            ctx.count("st.required.section-emptied")
            ctx.evaluation(("req", kind, "section-emptied", ch))
            if o.accepted:
                ctx.violation("required", f"missing-required-accepted/{kind}/section-emptied/{'argv' if ch.startswith('argv') else ch_family(ch)}", dict(path=path, channel=ch, config=short(mutated, 700), result=short(o.value, 400)))
    # leftover argv must fail and be quoted
    o = call(factory().parse_args, to_argv(cfg)[:1] + ["--zzq7f3", "1"] + to_argv(cfg)[1:])
    ctx.count("mon.leftover_argv")
    if o.accepted:
        ctx.violation("unknown-key", "leftover-argv-accepted", dict(argv=to_argv(cfg), result=short(o.value)))
    o2 = call(factory().parse_known_args, to_argv(cfg) + ["--zzq7f3=1"])
    if o2.accepted:
        ctx.violation("unknown-key", "parse_known_args-lenient-mode-available", dict(result=short(o2.value)))
    elif o2.kind == "raise" and o2.exc_type == "NotImplementedError":
        ctx.count("mon.parse_known_args_refused")
    if i < 2:
        ctx.sample(dict(valid_config=cfg, insertion_nodes=[list(map(str, p)) for p, _ in nodes], required=[list(map(str, p)) for p, _ in required]))


class _Enc:
    def __init__(self, dim: int):
        self.out = dim


class _Dec:
    def __init__(self, width: int = 1):
        self.out = width


def case_refused_link(ctx, i, rng):
    """a link that is refused when it is added (it would close a cycle) leaves the parser as it was: its would-be target is
    still a required argument"""
    def build():
        p = ArgumentParser(exit_on_error=False)
        p.add_argument("--cfg", action=ActionConfigFile)
        p.add_class_arguments(_Enc, "enc")
        p.add_class_arguments(_Dec, "dec")
        p.link_arguments("enc.out", "dec.width", apply_on="instantiate")
        return p

    p = build()
    refused = call(p.link_arguments, "dec.out", "enc.dim", apply_on="instantiate")
    ctx.count("mon.refused_link_then_required_check")
    ctx.evaluation(("refused-link", i % 3))
    if refused.accepted:
        ctx.observe("cycle-closing link accepted (C16's business)", None)
        return
    how = rng.choice(["object", "string", "argv", "cfg"])
    f = {"object": lambda: p.parse_object({}), "string": lambda: p.parse_string("{}"), "argv": lambda: p.parse_args([]), "cfg": lambda: p.parse_args(["--cfg={}"])}[how]
    o = call(f)
    ref = call({"object": lambda: build().parse_object({}), "string": lambda: build().parse_string("{}"), "argv": lambda: build().parse_args([]), "cfg": lambda: build().parse_args(["--cfg={}"])}[how])
    if o.accepted and not ref.accepted:
        ctx.violation("required", f"missing-required-accepted/target-of-a-refused-link/{how}", dict(refused_link=refused.brief(), result=short(o.value, 300), parser_without_the_attempt=ref.brief()))


def ch_family(ch):
    return {"object_nodefaults": "object-nodefaults", "string_nodefaults": "text-nodefaults", "object": "object", "string": "text", "cfg_string": "text", "cfg_file": "text", "path": "text", "argv": "argv"}[ch]


def run_shard(ctx):
    for i, rng in ctx.cases():
        if i % 6 == 4:
            case_refused_link(ctx, i, rng)
        zoo.CALLS.clear()
        case(ctx, i, rng)
