"""C20 — restricted and registered scalar types validate exactly, serialise losslessly.

(a) restricted numbers: every restriction set of 1-3 comparisons x candidates around the bounds, judged
    by an independent predicate evaluation (direct cast T(v), parser through argv and config);
(b) restricted strings: regex membership;
(c) registered types: value -> config representation -> parse returns an equal value of the same type,
    from the command line and from a config file, bare and inside containers;
(d) secret strings never appear in any dump / print_config / save output or error message."""

from __future__ import annotations

import datetime
import decimal
import io
import itertools
import json
import math
import operator
import os
import pathlib
import re
import uuid
from typing import Dict, List, Optional

from jsonargparse import ActionConfigFile, ArgumentParser, Namespace
from jsonargparse import typing as jt
from jsonargparse.typing import SecretStr, restricted_number_type, restricted_string_type

from vf.util import call, same, short

OPS = {">": operator.gt, ">=": operator.ge, "<": operator.lt, "<=": operator.le, "==": operator.eq, "!=": operator.ne}
_T = {}
_P = {}


CREATION = []  # (what, detail) problems met while creating types from restriction sets; flushed as violations by the caller


def rtype(base, rs, join):
    key = (base, tuple(sorted(rs)), join)
    if key not in _T:
        try:
            given = list(rs)
            _T[key] = restricted_number_type(None, base, given, join=join)
            given[:] = [("==", 424242)]  # the caller goes on using its list: the type keeps what it was created with
        except ValueError as ex:
            _T[key] = None  # same restriction as a predefined type
            if "already registered with a different name" not in str(ex):
                # a restriction set of its own that cannot be turned into a type (automatic names of two different sets collide)
                CREATION.append(("restriction-set-cannot-be-created/automatic-name", dict(base=base.__name__, rs=list(rs), join=join, error=str(ex))))
        if _T[key] is not None and len(rs) > 1:
            # the same comparisons listed in another order are the same restriction set
            try:
                again = restricted_number_type(None, base, list(reversed(rs)), join=join)
                if again is not _T[key]:
                    CREATION.append(("same-restriction-set-in-another-order-gives-another-type", dict(base=base.__name__, rs=list(rs), join=join)))
            except ValueError as ex:
                CREATION.append(("same-restriction-set-in-another-order-refused", dict(base=base.__name__, rs=list(rs), join=join, error=str(ex))))
    return _T[key]


def parser_for(tp, key):
    if key not in _P:
        if len(_P) > 1500:
            _P.clear()
        p = ArgumentParser(exit_on_error=False)
        p.add_argument("--cfg", action=ActionConfigFile)
        p.add_argument("--k", type=tp)
        _P[key] = p
    return _P[key]


def model_accept(base, rs, join, v):
    """-> (accept?, base value)"""
    if isinstance(v, bool):
        return False, None
    if base is int and isinstance(v, float) and not (math.isfinite(v) and v == int(v)):
        return False, None
    try:
        vv = base(v)
    except (ValueError, TypeError, OverflowError):
        return False, None
    checks = [OPS[o](vv, ref) for o, ref in rs]
    ok = all(checks) if join == "and" else any(checks)
    return ok, vv


def num_candidates(rng, base, rs):
    c = set()
    for _, ref in rs:
        for d in (-1, 0, 1):
            c.add(ref + d)
        if base is float:
            c.update([ref - 0.5, ref + 0.5, math.nextafter(ref, math.inf), math.nextafter(ref, -math.inf)])
        else:
            c.update([float(ref), ref + 0.5])
    c.update([0, 1, -1, 2**53 + 1, -(2**53) - 1, 10**18 + 1, 1e300, -1e300, True, False])
    if base is float:
        c.update([float("inf"), float("-inf"), float("nan"), 1e-320, -0.0])
    out = list(c)
    out += ["5", "5.0", " 3 ", "1e3", "abc", "", "0x10", "1_0", "-2", "+4", "٣", "²", None, [1], {"a": 1}, "nan", "inf", b"5"]
    rng.shuffle(out)
    # numbers that already are instances of *another* restricted type (validated by that type, not by this one)
    inst = []
    for ref in [r for _, r in rs] + [0, 1]:
        for d in (-1, 0, 1, 0.5):
            for other in (jt.PositiveInt, jt.NonNegativeInt, jt.PositiveFloat, jt.NonNegativeFloat, jt.ClosedUnitInterval, jt.OpenUnitInterval):
                try:
                    inst.append(other(ref + d))
                except (ValueError, TypeError, OverflowError):
                    pass
    inst += [t(x) for (k, t) in list(_T.items())[:40] if t is not None and k[0] in (int, float) for x in (k[1][0][1],) if _quiet_ok(t, x)]
    rng.shuffle(inst)
    return inst[:5] + out


def _quiet_ok(t, x):
    try:
        t(x)
        return True
    except Exception:
        return False


def check_number(ctx, rng, base, rs, join):
    tp = rtype(base, rs, join)
    while CREATION:
        what, detail = CREATION.pop()
        ctx.violation("restricted", f"number/create/{what}", detail)
    ctx.count("mon.restriction_sets_created_in_both_orders" if len(rs) > 1 else "mon.restriction_sets_created")
    if tp is None:
        ctx.count("restriction_sets_skipped_predefined_or_name_clash")
        return
    key = ("n", base, tuple(sorted(rs)), join)
    ctx.distinct(("rset", base.__name__, tuple(sorted(rs)), join))
    p = parser_for(tp, key)
    for v in num_candidates(rng, base, rs)[: 40 if ctx.tier == "thorough" else 22]:
        exp, vv = model_accept(base, rs, join, v)
        vclass = value_class(v)
        if vclass.startswith("instance-of-other"):
            if type(v) is tp:
                continue
            ctx.count("st.number.instance_of_other_restricted_type")
        # direct cast
        o = call(tp, v)
        ctx.count("mon.restricted_number.cast")
        ctx.count("evaluations")
        if o.kind == "raise" and o.exc_type not in ("ValueError", "TypeError", "OverflowError"):
            ctx.violation("restricted", f"number/cast/raises-{o.exc_type}/{vclass}", dict(base=base.__name__, rs=rs, join=join, value=repr(v), outcome=o.brief()))
            continue
        acc = o.accepted
        if acc != exp:
            ctx.violation("restricted", f"number/cast/{'accepted' if acc else 'rejected'}-but-predicate-says-{'no' if acc else 'yes'}/{base.__name__}/{vclass}", dict(base=base.__name__, rs=rs, join=join, value=repr(v), outcome=o.brief()))
            continue
        ctx.count("st.number." + ("accepted" if acc else "rejected"))
        if acc:
            r = o.value
            bad = None
            if type(r) is not tp:
                bad = "result-not-of-the-type"
            elif same(base(r), vv):
                bad = "result-differs-from-input-as-base"
            else:
                o2 = call(tp, r)
                if not o2.accepted or same(base(o2.value), base(r)) or type(o2.value) is not tp:
                    bad = "cast-again-changes"
            if bad:
                ctx.violation("restricted", f"number/cast/{bad}/{base.__name__}/{vclass}", dict(base=base.__name__, rs=rs, join=join, value=repr(v), result=repr(r)))
        # parser, for values whose text is unambiguous
        if isinstance(v, (int, float)) and not (isinstance(v, float) and not math.isfinite(v)):
            text = json.dumps(v)
            exp_cfg, vv_cfg = exp, vv
            for ch, oo in (("argv", call(p.parse_args, [f"--k={text}"])), ("config", call(p.parse_string, json.dumps({"k": v}))), ("object", call(p.parse_object, {"k": v}))):
                ctx.count(f"mon.restricted_number.parser.{ch}")
                if not (oo.accepted or oo.rejected):
                    ctx.observe("escape (C03)", oo.brief())
                    continue
                # a command line item is text: what must convert to the base type is that string
                exp, vv = model_accept(base, rs, join, text) if ch == "argv" else (exp_cfg, vv_cfg)
                if oo.accepted != exp:
                    ctx.violation("restricted", f"number/parser-{ch}/{'accepted' if oo.accepted else 'rejected'}-but-predicate-says-{'no' if oo.accepted else 'yes'}/{base.__name__}/{vclass}", dict(base=base.__name__, rs=rs, join=join, value=repr(v), outcome=oo.brief()))
                elif oo.accepted:
                    r = oo.value.k
                    if type(r) is not tp or same(base(r), vv):
                        ctx.violation("restricted", f"number/parser-{ch}/result-differs-from-input-as-base/{base.__name__}/{vclass}", dict(base=base.__name__, rs=rs, value=repr(v), result=repr(r)))
                    # dump -> parse
                    od = call(p.dump, oo.value, skip_none=False)
                    if od.accepted:
                        ob = call(p.parse_string, od.value)
                        if not ob.accepted or same(ob.value.k, r):
                            ctx.violation("restricted", f"number/roundtrip/{base.__name__}/{vclass}", dict(value=repr(r), text=od.value, back=ob.brief()))


def value_class(v):
    if isinstance(v, bool):
        return "bool"
    if isinstance(v, (int, float)) and type(v) not in (int, float):
        return "instance-of-other-restricted-type/" + ("integral" if v == int(v) else "fractional")
    if isinstance(v, int):
        return "bigint" if abs(v) > 2**53 else "int"
    if isinstance(v, float):
        if v != v:
            return "nan"
        if math.isinf(v):
            return "inf"
        return "integral-float" if v == int(v) else "float"
    if isinstance(v, str):
        try:
            float(v)
            return "numeric-str"
        except ValueError:
            return "junk-str"
    return type(v).__name__


REGEXES = [r"^[a-z]+$", r"^\d{2,4}$", r"[0-9]", r"^(yes|no|null)$", r"^.*[^ ].*$", r"^[^@ ]+@[^@ ]+\.[^@ ]+$", r"^é+$", r"^\s*x\s*$", r"^[A-Z]{2}-\d+$", r"^(?i:true)$", r"^.{0,3}$"]
STR_INST = [jt.NotEmptyStr("abc"), jt.NotEmptyStr("12"), jt.NotEmptyStr("a@b"), jt.Email("a@b.c"), jt.NotEmptyStr("éé"), jt.NotEmptyStr("true"), jt.NotEmptyStr("AB-12"), jt.NotEmptyStr("abcd")]
STR_CANDS = ["abc", "ABC", "12", "12345", "1", "yes", "no", "null", "", " ", " x ", "x", "a@b.c", "a@b", "éé", "e", "AB-12", "ab-12", "true", "TRUE", "tRuE", "a1", "abcd", "1e3", "on", "~", "0x1F", "x\n", "multi\nline", "[1]", "{a: 1}", "- x", "'q'", '"q"', "#c", "a: b"]


def check_string(ctx, rng, rx):
    name = "RSX_" + "".join(ch if ch.isalnum() else "_" for ch in rx) + f"_{abs(hash(rx)) % 1000}"
    key = ("s", rx)
    if key not in _T:
        predefined = {r"^.*[^ ].*$": jt.NotEmptyStr, r"^[^@ ]+@[^@ ]+\.[^@ ]+$": jt.Email}
        _T[key] = predefined.get(rx) or restricted_string_type(name, rx)
    tp = _T[key]
    keyi = ("si", rx)
    if keyi not in _T and "(?i" not in rx:
        # the same pattern compiled with a flag is another restriction: a type of its own, deciding by its own pattern object
        try:
            _T[keyi] = restricted_string_type(name + "_ic", re.compile(rx, re.IGNORECASE))
        except ValueError as ex:
            _T[keyi] = None
            ctx.violation("restricted", "string/create/pattern-with-flags-refused-or-confused-with-the-plain-pattern", dict(regex=rx, error=str(ex)))
        ctx.count("mon.restricted_string.flag_variants")
    tpi = _T.get(keyi)
    if tpi is not None:
        for v in STR_CANDS:
            expi = re.match(rx, v, re.IGNORECASE) is not None
            oi = call(tpi, v)
            ctx.count("mon.restricted_string.cast")
            ctx.count("evaluations")
            if oi.accepted != expi or (tpi is tp and expi != (re.match(rx, v) is not None)):
                ctx.violation("restricted", f"string/cast/{'accepted' if oi.accepted else 'rejected'}-wrongly/pattern-with-flags", dict(regex=rx, flags="IGNORECASE", value=v, outcome=oi.brief()))
                break
    p = parser_for(tp, key)
    ctx.distinct(("regex", rx))
    for v in STR_CANDS + [x for x in STR_INST if type(x) is not tp]:
        exp = re.match(rx, v) is not None
        if type(v) is not str:
            ctx.count("st.string.instance_of_other_restricted_type")
        o = call(tp, v)
        ctx.count("mon.restricted_string.cast")
        ctx.count("evaluations")
        if o.accepted != exp:
            ctx.violation("restricted", f"string/cast/{'accepted' if o.accepted else 'rejected'}-wrongly", dict(regex=rx, value=v, outcome=o.brief()))
            continue
        ctx.count("st.string." + ("accepted" if exp else "rejected"))
        if exp and not (o.value == v and type(o.value) is tp and str(o.value) == v and tp(o.value) == v):
            ctx.violation("restricted", "string/cast/result-differs-from-input", dict(regex=rx, value=v, result=repr(o.value)))
        # through the parser: config text (JSON quoted => a str) and argv (raw)
        oc = call(p.parse_string, json.dumps({"k": v}))
        ctx.count("mon.restricted_string.parser.config")
        if oc.accepted or oc.rejected:
            if oc.accepted != exp:
                ctx.violation("restricted", f"string/parser-config/{'accepted' if oc.accepted else 'rejected'}-wrongly/{lex(v)}", dict(regex=rx, value=v, outcome=oc.brief()))
            elif oc.accepted and not (oc.value.k == v and type(oc.value.k) is tp):
                ctx.violation("restricted", f"string/parser-config/result-differs-from-input/{lex(v)}", dict(regex=rx, value=v, result=repr(oc.value.k)))
            elif oc.accepted:
                for fmt in ("yaml", "json"):
                    od = call(p.dump, oc.value, format=fmt, skip_none=False)
                    ob = call(p.parse_string, od.value) if od.accepted else od
                    ctx.count("mon.restricted_string.roundtrip")
                    if not ob.accepted or same(ob.value.k, oc.value.k):
                        ctx.violation("restricted", f"string/roundtrip-{fmt}/{lex(v)}", dict(regex=rx, value=v, text=od.value if od.accepted else None, back=ob.brief()))
        if v != "" and not v.startswith("-"):
            oa = call(p.parse_args, [f"--k={v}"])
            ctx.count("mon.restricted_string.parser.argv")
            if (oa.accepted or oa.rejected) and oa.accepted != exp:
                ctx.violation("restricted", f"string/parser-argv/{'accepted' if oa.accepted else 'rejected'}-wrongly/{lex(v)}", dict(regex=rx, value=v, outcome=oa.brief()))
            elif oa.accepted and not (oa.value.k == v and type(oa.value.k) is tp):
                ctx.violation("restricted", f"string/parser-argv/result-differs-from-input/{lex(v)}", dict(regex=rx, value=v, result=repr(oa.value.k)))


def lex(v):
    import yaml

    try:
        l = yaml.safe_load(v)
    except Exception:
        return "yaml-error"
    return "loads-as-" + type(l).__name__


# ---- registered types ----------------------------------------------------------------------------
def reg_values(rng, which):
    td = datetime.timedelta
    if which == "complex":
        return [complex(1, 2), complex(0, 1), complex(-1.5, 0), 0j, complex(0, 0.0), complex(-0.0, -0.0), complex(1e300, -1e-300), complex(float("inf"), 0), complex(0, float("nan")), complex(3, -4), complex(rng.uniform(-9, 9), rng.uniform(-9, 9))]
    if which == "Decimal":
        D = decimal.Decimal
        return [D("0.1"), D("1.5"), D("-3"), D("100"), D("2.5e3"), D("0"), D("1E-7"), D("3.14159265358979323846264338327950288"), D("1e400"), D("-0"), D("123456789012345678901234567890"), D("0.30000000000000004"), D(str(rng.randrange(10**6)) + "." + str(rng.randrange(10**6)))]
    if which == "UUID":
        return [uuid.UUID(int=0), uuid.UUID(int=2**128 - 1), uuid.UUID(int=rng.getrandbits(128)), uuid.UUID("12345678-1234-5678-1234-567812345678")]
    if which == "timedelta":
        return [td(0), td(seconds=5), td(microseconds=1), td(milliseconds=500), td(days=1), td(days=-1), td(days=2, hours=3), td(hours=30), td(seconds=-1), td(microseconds=-1), td(days=-1, seconds=1), td(days=400, microseconds=5),
                td(days=50000, microseconds=123456), td(days=999999, microseconds=1), td(days=-999999, microseconds=1), td.max, td.min, td.min + td(microseconds=1), td(days=999999999), td(days=-999999999), td(hours=1, minutes=2, seconds=3, microseconds=400), td(seconds=rng.randrange(10**7), microseconds=rng.randrange(10**6)), td(days=rng.randrange(-9, 9), seconds=rng.randrange(86400))]
    if which == "bytes":
        return [b"abc", b"", b"\x00\xff", b"\xd7m\xf8", bytes(range(256)), b"\xd7\x7d\x74", bytes(rng.randrange(256) for _ in range(rng.randrange(1, 9))), b"\x35\xeb\x5d\x35", b"\xd5\xed\x74", b"\x9e\xe9e"]
    if which == "bytearray":
        return [bytearray(b"abc"), bytearray(b""), bytearray(b"\x00\xff"), bytearray(rng.randrange(256) for _ in range(rng.randrange(1, 9)))]
    if which == "range":
        return [range(5), range(0), range(2, 7), range(0, 10, 3), range(0, 10, 2), range(0, -5, -1), range(0, 0, 2), range(5, 0, -1), range(-3, 3), range(7, 7), range(1, 10, 1), range(0, 10**12, 10**6), range(rng.randrange(-5, 5), rng.randrange(-5, 9), rng.choice([-2, -1, 1, 2, 3]))]
    if which == "pathlib":
        return [pathlib.Path("some/rel/path.txt"), pathlib.Path("/abs/path"), pathlib.Path("."), pathlib.Path("file with space.yaml"), pathlib.Path("~/x"), pathlib.Path("a/../b"), pathlib.Path("1e3"), pathlib.Path("null"), pathlib.Path("007"),
                pathlib.Path("~"), pathlib.Path("#recycle"), pathlib.Path("C: drive")]
    raise AssertionError(which)


REG = {"complex": complex, "Decimal": decimal.Decimal, "UUID": uuid.UUID, "timedelta": datetime.timedelta, "bytes": bytes, "bytearray": bytearray, "range": range, "pathlib": pathlib.Path}


def reg_class(which, x):
    if which == "complex":
        parts = [x.real, x.imag]
        if any(p != p or math.isinf(p) for p in parts):
            return "nonfinite"
        return "zero-part" if 0 in parts else "general"
    if which == "Decimal":
        try:
            exact = decimal.Decimal(float(x)) == x
        except (OverflowError, ValueError):
            exact = False
        return "float-exact" if exact else "not-representable-as-float"
    if which == "timedelta":
        c = []
        if x.days < 0:
            c.append("negative")
        if x.microseconds:
            c.append("subsecond")
        if abs(x.days) >= 50000:
            c.append("huge-days")
        if abs(x.days) == 1:
            c.append("one-day")
        return "+".join(c) or "plain"
    if which == "range":
        c = []
        if len(x) == 0:
            c.append("empty")
        if x.step != 1:
            c.append("step")
        if x.start == 0:
            c.append("start0")
        return "+".join(c) or "plain"
    if which in ("bytes", "bytearray"):
        from base64 import b64encode

        return "b64-" + lex(b64encode(bytes(x)).decode()) if len(x) else "empty"
    if which == "pathlib":
        return "str-" + lex(str(x))
    return "general"


def same_reg(a, b):
    if type(a) is not type(b) and not (isinstance(a, pathlib.PurePath) and isinstance(b, pathlib.PurePath)):
        return f"type {type(a).__name__} vs {type(b).__name__}"
    if isinstance(a, complex):
        return None if (repr(a) == repr(b)) else f"{a!r} vs {b!r}"
    if isinstance(a, range):
        return None if (a.start, a.stop, a.step) == (b.start, b.stop, b.step) or (len(a) == 0 and len(b) == 0 and False) else f"{a!r} vs {b!r}"
    if isinstance(a, decimal.Decimal):
        return None if (a == b and a.is_signed() == b.is_signed()) else f"{a!r} vs {b!r}"
    return None if a == b else f"{a!r} vs {b!r}"


def check_registered(ctx, rng, which):
    tp = REG[which]
    handler = jt.get_registered_type(tp)
    shapes = {"bare": tp, "optional": Optional[tp], "list": List[tp], "dict": Dict[str, tp]}
    for x in reg_values(rng, which):
        cls = reg_class(which, x)
        ctx.distinct(("reg", which, cls, repr(x)[:60]))
        for shape, hint in shapes.items():
            p = parser_for(hint, ("r", which, shape))
            val = {"bare": x, "optional": x, "list": [x, x], "dict": {"a": x}}[shape]
            # config route: dump -> parse_string, yaml and json
            for fmt in ("yaml", "json"):
                od = call(p.dump, Namespace(k=val), format=fmt, skip_none=False)
                ctx.count("mon.registered.config_roundtrip")
                ctx.count("evaluations")
                if not od.accepted:
                    ctx.violation("registered", f"{which}/dump-raised-{od.exc_type}/{cls}", dict(value=repr(x), shape=shape, fmt=fmt, outcome=od.brief()))
                    continue
                ob = call(p.parse_string, od.value)
                if not ob.accepted:
                    ctx.violation("registered", f"{which}/config-reparse-rejected/{fmt}/{cls}", dict(value=repr(x), shape=shape, text=od.value, outcome=ob.brief()))
                    continue
                back = ob.value.k
                if shape == "optional" and back is None and isinstance(handler.serializer(x), str) and lex(handler.serializer(x)) == "loads-as-NoneType":
                    ctx.observe("optional-null-word (by design)", repr(x))
                    continue
                got = {"bare": back, "optional": back, "list": back[0] if isinstance(back, list) and back else back, "dict": back.get("a") if isinstance(back, dict) else back}[shape]
                d = same_reg(x, got)
                if d:
                    ctx.violation("registered", f"{which}/config-roundtrip-differs/{fmt}/{cls}", dict(value=repr(x), shape=shape, text=od.value, back=repr(got), why=d))
            # command line route: serializer text -> argv
            if shape in ("bare", "optional"):
                text = handler.serializer(x)
                text = text if isinstance(text, str) else json.dumps(text)
                if text.startswith("-"):
                    argv = [f"--k={text}"]
                else:
                    argv = rng.choice([[f"--k={text}"], ["--k", text]])
                oa = call(p.parse_args, argv)
                ctx.count("mon.registered.argv_roundtrip")
                if not oa.accepted:
                    ctx.violation("registered", f"{which}/argv-rejected/{cls}", dict(value=repr(x), argv=argv, outcome=oa.brief()))
                elif shape == "optional" and oa.value.k is None and lex(text) == "loads-as-NoneType":
                    ctx.observe("optional-null-word (by design)", repr(x))
                else:
                    d = same_reg(x, oa.value.k)
                    if d:
                        ctx.violation("registered", f"{which}/argv-roundtrip-differs/{cls}", dict(value=repr(x), argv=argv, back=repr(oa.value.k), why=d))


            # the append spelling takes the same representation as an item: --k+=<text> on a list of the type
            if shape == "list":
                text = handler.serializer(x)
                text = text if isinstance(text, str) else json.dumps(text)
                oa = call(p.parse_args, [f"--k+={text}"])
                ctx.count("mon.registered.argv_append")
                if not oa.accepted:
                    ctx.violation("registered", f"{which}/argv-append-rejected/{cls}/{lex(text)}", dict(value=repr(x), argv=[f"--k+={text}"], outcome=oa.brief()))
                else:
                    back = oa.value.k
                    d = same_reg(x, back[-1]) if isinstance(back, list) and back else "not a list"
                    if d:
                        ctx.violation("registered", f"{which}/argv-append-differs/{cls}", dict(value=repr(x), argv=[f"--k+={text}"], back=repr(back), why=d))


# ---- secrets -------------------------------------------------------------------------------------
def check_secret(ctx, rng, workdir):
    token = "s3cr3t-" + "".join(rng.choice("abcdefghjkmnpqrstuvwxyz23456789") for _ in range(12))
    shapes = {"bare": SecretStr, "optional": Optional[SecretStr], "list": List[SecretStr], "dict": Dict[str, SecretStr]}
    for shape, hint in shapes.items():
        p = ArgumentParser(exit_on_error=False)
        p.add_argument("--cfg", action=ActionConfigFile)
        p.add_argument("--k", type=hint)
        p.add_argument("--n", type=int, default=1)
        raw = {"bare": token, "optional": token, "list": [token, token + "b"], "dict": {"a": token}}[shape]
        text = raw if isinstance(raw, str) else json.dumps(raw)
        outs = []
        o = call(p.parse_args, [f"--k={text}"])
        ctx.count("mon.secret.parse")
        ctx.count("evaluations")
        ctx.distinct(("secret", shape, token))
        if not o.accepted:
            ctx.violation("secret", f"secret/{shape}/rejected", dict(outcome=o.brief().replace(token, "<TOKEN>")))
            continue
        cfg = o.value
        inner = {"bare": lambda: cfg.k, "optional": lambda: cfg.k, "list": lambda: cfg.k[0], "dict": lambda: cfg.k["a"]}[shape]()
        if not isinstance(inner, SecretStr) or inner.get_secret_value() != token:
            ctx.violation("secret", f"secret/{shape}/value-not-kept", dict(got=type(inner).__name__))
        for fmt in ("yaml", "json", "json_indented"):
            for kw in ({}, {"skip_default": True}, {"skip_none": False}, {"yaml_comments": True} if fmt == "yaml" else {}):
                od = call(p.dump, cfg, format=fmt, **kw)
                outs.append((f"dump.{fmt}.{sorted(kw)}", od.value if od.accepted else (od.exc_text or "") + od.stderr + od.stdout))
        for flag in ("", "=comments", "=skip_default", "=skip_null"):
            op = call(p.parse_args, ["--print_config" + flag, f"--k={text}"])
            outs.append(("print_config" + flag, op.stdout + op.stderr + (op.exc_text or "")))
        path = os.path.join(workdir, f"sec_{shape}.yaml")
        os_ = call(p.save, cfg, path, overwrite=True)
        if os.path.exists(path):
            outs.append(("save", open(path).read()))
        outs.append(("repr", repr(cfg) + str(cfg)))
        outs.append(("namespace_str", str(inner) + repr(inner) + format(inner) + f"{inner}"))
        # error messages of a later failing option must not quote the secret
        oe = call(p.parse_args, [f"--k={text}", "--n=notint"])
        outs.append(("error-other-key", (oe.exc_text or "") + oe.stderr))
        oe2 = call(ArgumentParser(exit_on_error=True).parse_args, []) if False else None
        help_o = call(p.parse_args, [f"--k={text}", "--help"])
        outs.append(("help", help_o.stdout + help_o.stderr))
        for where, textout in outs:
            ctx.count("mon.secret.outputs_scanned")
            if token in (textout or ""):
                ctx.violation("secret", f"secret/leak/{where.split('.')[0]}/{shape}", dict(where=where, excerpt=(textout or "").replace(token, "<TOKEN>")[:400]))


def run_shard(ctx):
    # (a) restriction sets: enumerate 1..3 comparisons over 6 operators x references, sharded
    refs_int, refs_float = [-2, 0, 3], [-1.5, 0.0, 2.5]
    ops = list(OPS)
    sets = []
    for base, refs in ((int, refs_int), (float, refs_float)):
        singles = [(o, r) for o in ops for r in refs]
        for n in (1, 2, 3):
            for combo in itertools.combinations(singles, n):
                for join in (("and",) if n == 1 else ("and", "or")):
                    sets.append((base, combo, join))
    rng0 = ctx.case_rng(0, "sets")
    rng0.shuffle(sets)
    per_shard = sets[ctx.shard :: ctx.nshards]
    limit = 250 if ctx.tier == "quick" else 700  # registered type names are global: bounded per process
    deadline_a = ctx.t0 + ctx.budget * 0.5
    import time

    done_sets = 0
    for base, combo, join in per_shard[:limit]:
        if time.time() > deadline_a:
            break
        check_number(ctx, ctx.case_rng(done_sets, "num"), base, list(combo), join)
        done_sets += 1
    ctx.count("mon.restriction_sets", done_sets)
    ctx.extra(restriction_sets_space=len(sets))
    for rx in REGEXES[ctx.shard :: max(1, min(ctx.nshards, 4))] if ctx.shard < 4 else REGEXES[:2]:
        check_string(ctx, ctx.case_rng(0, rx), rx)
    for i, rng in ctx.cases():
        for which in REG:
            check_registered(ctx, rng, which)
        check_secret(ctx, rng, ctx.workdir)
        if i == 0:
            ctx.sample(dict(registered_values={w: [repr(v) for v in reg_values(rng, w)[:4]] for w in REG}))
        if i >= (12 if ctx.tier == "quick" else 80):
            break
