"""C12 — auto_cli calls the component with exactly the parsed values.

Generated programs (real source files): functions, lists and nested dicts of functions, classes with
methods (+ static/class methods, property), async functions. Every body records its bound arguments in
a call log and returns a unique token. The monitor compares the call log with the expected binding."""

from __future__ import annotations

import copy
import json
import os

from jsonargparse import auto_cli

from vf.gen import programs
from vf.util import call, same, short

HEADER = '''from typing import Any, Dict, List, Optional, Tuple, Union, Literal
from jsonargparse.typing import PositiveInt
from vf.fixtures.zoo import Color, Point
CALLS = []
'''

# (annotation source, list of (text on argv, expected python value as source))
TYPES = [
    ("int", [("5", 5), ("-3", -3), ("0", 0)]),
    ("float", [("2.5", 2.5), ("3", 3.0), ("1e3", 1000.0)]),
    ("str", [("hello", "hello"), ("1", "1"), ("a b", "a b"), ("true", "true")]),
    ("bool", [("true", True), ("false", False)]),
    ("Optional[int]", [("7", 7), ("null", None)]),
    ("List[int]", [("[1, 2]", [1, 2]), ("[]", [])]),
    ("Dict[str, int]", [('{"a": 1}', {"a": 1})]),
    ("Tuple[int, str]", [('[1, "x"]', (1, "x"))]),
    ("Color", [("red", "Color.red"), ("blue", "Color.blue")]),
    ("Literal['a', 'b']", [("a", "a"), ("b", "b")]),
    ("Union[int, str]", [("4", 4), ("word", "word")]),
    ("Optional[List[str]]", [('["p", "q"]', ["p", "q"]), ("null", None)]),
    ("Optional[Dict[str, int]]", [('{"k": 2}', {"k": 2})]),
    ("PositiveInt", [("3", "PositiveInt(3)")]),
    ("Optional[str]", [("abc", "abc")]),
    ("Optional[Union[int, str]]", [("5", 5), ("abc", "abc"), ("null", None)]),
    ("List[Optional[float]]", [("[1.5, null]", [1.5, None])]),
    ("Union[List[int], List[str]]", [('["7", "abc"]', ["7", "abc"]), ("[1, 2]", [1, 2]), ('["x"]', ["x"])]),
    ("Union[List[float], Tuple[str, ...]]", [('["1.5", "x"]', ("1.5", "x")), ("[2.5]", [2.5])]),
]
DEFAULTS = {
    "int": ["1", "0", "-7"], "float": ["0.5", "0.0"], "str": ["'d'", "''", "'1'"], "bool": ["False", "True"], "Optional[int]": ["None", "3"],
    "List[int]": ["[]", "[9]"] if False else ["None"], "Dict[str, int]": ["None"], "Tuple[int, str]": ["(0, 'z')"], "Color": ["Color.green"],
    "Literal['a', 'b']": ["'a'"], "Union[int, str]": ["0", "'u'"], "Optional[List[str]]": ["None"], "Optional[Dict[str, int]]": ["None"],
    "PositiveInt": ["1"], "Optional[str]": ["None", "'s'"], "Optional[Union[int, str]]": ["None", "4"], "List[Optional[float]]": ["None"],
    "Union[List[int], List[str]]": ["None"], "Union[List[float], Tuple[str, ...]]": ["None"],
}
NAMES = ["alpha", "beta", "gamma", "n", "lr", "name", "flag", "items", "config_path", "x1", "verbose", "k"]


def gen_params(rng, nmax=6, taken=()):
    n = rng.randrange(1, nmax + 1)
    names = rng.sample([x for x in NAMES if x not in taken], n)
    params = []
    kwonly = False
    required_allowed = True
    for nm in names:
        ann, vals = rng.choice(TYPES)
        has_default = rng.random() < 0.55
        if not has_default and not required_allowed and not kwonly:
            has_default = True  # python: non-default after default only for keyword-only
        if has_default:
            required_allowed = False
        if rng.random() < 0.25:
            kwonly = True
        default = rng.choice(DEFAULTS[ann]) if has_default else None
        if default == "None" and not ann.startswith("Optional") and ann != "Optional[int]":
            ann = f"Optional[{ann}]"
            vals = [v for v in vals]
        params.append(dict(name=nm, ann=ann, vals=vals, default=default, kwonly=kwonly))
    # python syntax: keyword-only params may come without default after defaults; others not
    seen_default = False
    for p in params:
        if p["kwonly"]:
            continue
        if p["default"] is not None:
            seen_default = True
        elif seen_default:
            p["default"] = rng.choice(DEFAULTS.get(p["ann"], ["None"]))
            if p["default"] == "None" and not p["ann"].startswith("Optional"):
                p["ann"] = f"Optional[{p['ann']}]"
    return params


def sig_src(params, first=None):
    parts = [first] if first else []
    star = False
    for p in params:
        if p["kwonly"] and not star:
            parts.append("*")
            star = True
        parts.append(f"{p['name']}: {p['ann']}" + (f" = {p['default']}" if p["default"] is not None else ""))
    return ", ".join(parts)


def body_src(label, params, indent="    ", ret=True):
    rec = ", ".join(f"{p['name']!r}: {p['name']}" for p in params)
    s = f"{indent}CALLS.append(({label!r}, {{{rec}}}))\n"
    if ret:
        s += f"{indent}return 'ret:{label}'\n"
    return s


def gen_program(rng):
    kind = rng.choice(["function", "function", "functions_list", "functions_dict", "class", "class", "async_function"])
    src = HEADER
    comps = {}  # label -> dict(params=..., ctor=...)
    if kind in ("function", "async_function"):
        ps = gen_params(rng)
        src += f"{'async ' if kind == 'async_function' else ''}def fn0({sig_src(ps)}):\n" + body_src("fn0", ps)
        comps["fn0"] = dict(params=ps, path=[])
        entry = "fn0"
    elif kind == "functions_list":
        names = ["cmd_a", "cmd_b", "cmd_c"][: rng.choice([2, 3])]
        for nm in names:
            ps = gen_params(rng, 4)
            src += f"def {nm}({sig_src(ps)}):\n" + body_src(nm, ps)
            comps[nm] = dict(params=ps, path=[nm])
        entry = "[" + ", ".join(names) + "]"
    elif kind == "functions_dict":
        for nm in ("fa", "fb", "fc"):
            ps = gen_params(rng, 3)
            src += f"def {nm}({sig_src(ps)}):\n" + body_src(nm, ps)
        comps["fa"] = dict(params=None, path=["grp1", "fa"])
        comps["fb"] = dict(params=None, path=["grp1", "fb"])
        comps["fc"] = dict(params=None, path=["fc"])
        entry = "{'grp1': {'_help': 'group one', 'fa': fa, 'fb': fb}, 'fc': fc}"
    else:
        cps = gen_params(rng, 3)
        src += "class Comp:\n"
        src += f"    def __init__({sig_src(cps, 'self')}):\n" + body_src("Comp.__init__", cps, "        ", ret=False)
        taken = [p["name"] for p in cps]
        meths = ["run", "fit", "show"][: rng.choice([1, 2, 3])]
        for m in meths:
            ps = gen_params(rng, 3, taken)
            deco = rng.choice(["", "", "", "@staticmethod", "@classmethod"])
            first = {"": "self", "@staticmethod": None, "@classmethod": "cls"}[deco]
            if deco:
                src += f"    {deco}\n"
            src += f"    def {m}({sig_src(ps, first)}):\n" + body_src(f"Comp.{m}", ps, "        ")
            comps[f"Comp.{m}"] = dict(params=ps, ctor=cps, path=[m])
        if rng.random() < 0.3:
            src += "    @property\n    def prop(self):\n        CALLS.append(('Comp.prop', {}))\n        return 'ret:Comp.prop'\n"
            comps["Comp.prop"] = dict(params=[], ctor=cps, path=["prop"])
        src += "    def _private(self, zz: int = 0):\n        CALLS.append(('Comp._private', {}))\n"
        entry = "Comp"
        nest = rng.choice([None, None, "list", "dict"])
        if nest:
            # the class is one of several components: its methods are subcommands of a subcommand
            src += "def fx(q: int = 0):\n    CALLS.append(('fx', {'q': q}))\n    return 'ret:fx'\n"
            prefix = ["Comp"] if nest == "list" else ["grp", "tool"]
            entry = "[fx, Comp]" if nest == "list" else "{'grp': {'tool': Comp, 'fx': fx}, 'fy': fx}"
            for c in comps.values():
                c["prefix"] = prefix
            kind = "class_in_" + nest
    return kind, src, comps, entry


def fill_dict_params(src_mod, comps, program_params):
    return comps


def choose_values(rng, params, as_positional):
    """-> (argv parts for these params, expected dict, config dict, omitted required name or None)"""
    argv, expected, cfg = [], {}, {}
    positional = []
    for p in params:
        required = p["default"] is None and not p["ann"].startswith("Optional")
        give = required or rng.random() < 0.6
        if not give:
            expected[p["name"]] = ("default", p["default"])
            continue
        text, val = rng.choice(p["vals"])
        expected[p["name"]] = ("value", val)
        if required and as_positional:
            positional.append(text)
        else:
            how = rng.random()
            if how < 0.6:
                argv.append(f"--{p['name']}={text}")
            elif how < 0.8 and not text.startswith("-"):
                argv += [f"--{p['name']}", text]
            else:
                cfg[p["name"]] = cfg_value(val)
    return positional, argv, expected, cfg


def cfg_value(val):
    """what a user writes in a config for this value (JSON-able)"""
    if isinstance(val, str) and val.startswith("Color."):
        return val.split(".", 1)[1]
    if isinstance(val, str) and val.startswith("PositiveInt("):
        return int(val[12:-1])
    if isinstance(val, tuple):
        return list(val)
    return val


def eval_expected(mod, exp, default_none_ok=True):
    kind, v = exp
    if kind == "default":
        return eval(v, vars(mod)) if v is not None else None
    if isinstance(v, str) and v.startswith(("Color.", "PositiveInt(")):
        return eval(v, vars(mod))
    return v


def cmd_a(x: int = 1):
    return ("cmd_a", x)


def cmd_b(y: int = 2):
    return ("cmd_b", y)


def failing_cli_with_default_config(ctx, i, rng):
    """a CLI over several components with a default config file, whose subcommand is chosen by --config and whose parse fails
    while the subcommand is handled: whatever it had set up must be gone for the CLIs built afterwards in this process"""
    dcf = os.path.join(ctx.workdir, "c12_defaults.json")
    with open(dcf, "w") as f:
        json.dump({"cmd_a": {"x": 7}}, f)
    bad = rng.choice(['{"cmd_a": {"x": "not-an-int"}}', '{"cmd_a": {"zz": 1}}', '{"subcommand": "cmd_a", "cmd_a": {"x": [1]}}', "ENV"])
    if bad == "ENV":
        # the failure comes from the environment of the subcommand that the config chose
        from vf.util import environ

        with environ({"APP_CMD_A__X": "many"}):
            o = call(auto_cli, [cmd_a, cmd_b], args=["--config", '{"cmd_a": {}}'], default_config_files=[dcf], default_env=True, env_prefix="APP", exit_on_error=False)
    else:
        o = call(auto_cli, [cmd_a, cmd_b], args=["--config", bad], default_config_files=[dcf], exit_on_error=False)
    ctx.count("ev.failing_cli_with_default_config." + ("rejected" if o.rejected else o.kind))
    # the same components without default config file: signature defaults, nothing of the earlier CLI
    o2 = call(auto_cli, [cmd_a, cmd_b], args=["cmd_a"], exit_on_error=False)
    ctx.count("mon.cli_after_failed_cli")
    if not o2.accepted or o2.value != ("cmd_a", 1):
        ctx.violation("auto_cli", "later-cli-influenced-by-an-earlier-failed-cli", dict(failed=o.brief(), later=o2.brief()))


FACTORY_SRC = """
CALLS = []
def make(kind):
    if kind == 0:
        def cmd(size: int = 1, tag: str = "a"):
            CALLS.append(("k0", dict(size=size, tag=tag)))
            return ("k0", size, tag)
    elif kind == 1:
        def cmd(size: float = 0.5, rate: float = 2.0, *, deep: bool = False):
            CALLS.append(("k1", dict(size=size, rate=rate, deep=deep)))
            return ("k1", size, rate, deep)
    else:
        def cmd(tag: int = 7):
            CALLS.append(("k2", dict(tag=tag)))
            return ("k2", tag)
    return cmd
"""


def same_named_functions(ctx, i, rng):
    """Commands made by a factory: distinct function objects with the same module and qualified name but different
    signatures, given to auto_cli one after the other in one process. Each call binds the parameters of its own function."""
    o = call(programs.write_module, ctx.workdir, FACTORY_SRC, "c12fac")
    if not o.accepted:
        ctx.inconclusive(f"factory module does not import: {o.brief()}")
        return
    mod, path = o.value
    try:
        order = rng.sample([0, 1, 2], rng.choice([2, 3]))
        runs = {
            0: (["--size=4", "--tag=zz"], ("k0", 4, "zz")),
            1: (["--size=1.5", "--deep=true"], ("k1", 1.5, 2.0, True)),
            2: (["--tag=12"], ("k2", 12)),
        }
        for n, kind in enumerate(order):
            argv, exp = runs[kind]
            mod.CALLS.clear()
            oc = call(auto_cli, mod.make(kind), args=list(argv), exit_on_error=False)
            ctx.count("mon.same_named_functions")
            ctx.evaluation(("same-named", tuple(order), n))
            w = dict(shape="factory-made-functions", order=order, position=n, argv=argv)
            if not oc.accepted:
                ctx.violation("auto_cli", f"valid-invocation-failed/function-sharing-its-qualified-name-with-an-earlier-one/{oc.exc_type}", dict(w, outcome=oc.brief()))
                return
            if oc.value != exp or type(oc.value[1]) is not type(exp[1]) or len(mod.CALLS) != 1:
                ctx.violation("auto_cli", "wrong-binding/function-sharing-its-qualified-name-with-an-earlier-one", dict(w, expected=exp, got=short(oc.value), calls=short(mod.CALLS)))
                return
    finally:
        programs.forget(mod, path)


CONFIG_PARAM_SRC = """
from typing import Dict, Optional
CALLS = []
class Tool:
    def __init__(self, scale: int = 1):
        CALLS.append(("Tool.__init__", dict(scale=scale)))
    def run(self, config: Optional[Dict[str, int]] = None, n: int = 1):
        CALLS.append(("Tool.run", dict(config=config, n=n)))
        return ("run", config, n)
    def show(self, depth: int = 0):
        CALLS.append(("Tool.show", dict(depth=depth)))
        return ("show", depth)
"""


def method_parameter_named_config(ctx, i, rng):
    """a method whose own parameter is called 'config' (the name auto_cli uses for its config file option where the component
    has no such parameter): the method receives what was given for it"""
    o = call(programs.write_module, ctx.workdir, CONFIG_PARAM_SRC, "c12cfg")
    if not o.accepted:
        ctx.inconclusive(f"module does not import: {o.brief()}")
        return
    mod, path = o.value
    try:
        val = {rng.choice(["a", "b"]): rng.randrange(9)}
        n = rng.randrange(2, 9)
        argv, exp = rng.choice([
            (["run", f"--config={json.dumps(val)}", f"--n={n}"], ("run", val, n)),
            (["--scale=2", "run", "--config", json.dumps(val)], ("run", val, 1)),
            (["run", f"--n={n}"], ("run", None, n)),
            (["show", "--depth=4"], ("show", 4)),
        ])
        mod.CALLS.clear()
        oc = call(auto_cli, mod.Tool, args=list(argv), exit_on_error=False)
        ctx.count("mon.method_parameter_named_config")
        ctx.evaluation(("config-param", tuple(a.split("=")[0] for a in argv)))
        w = dict(shape="method-parameter-named-config", argv=argv)
        if not oc.accepted:
            ctx.violation("auto_cli", f"valid-invocation-failed/method-parameter-named-config/{oc.exc_type}", dict(w, outcome=oc.brief()))
        elif oc.value != exp:
            ctx.violation("auto_cli", "wrong-binding/method-parameter-named-config", dict(w, expected=exp, got=short(oc.value), calls=short(mod.CALLS)))
    finally:
        programs.forget(mod, path)


def case(ctx, i, rng):
    if i % 9 == 4:
        failing_cli_with_default_config(ctx, i, rng)
    if i % 9 == 2:
        method_parameter_named_config(ctx, i, rng)
    if i % 9 == 7:
        same_named_functions(ctx, i, rng)
    kind, src, comps, entry = gen_program(rng)
    if kind == "functions_dict":
        # parameters of dict functions: re-read from source is unnecessary; regenerate deterministic small signatures
        pass
    o = call(programs.write_module, ctx.workdir, src, "c12")
    if not o.accepted:
        ctx.inconclusive(f"generated program does not import: {o.brief()} :: {src[:300]}")
        return
    mod, path = o.value
    try:
        label = rng.choice(list(comps))
        comp = comps[label]
        if comp.get("params") is None:
            return _dict_case(ctx, i, rng, mod, src, comps, entry, label)
        as_positional = rng.random() < 0.7
        ctor = comp.get("ctor")
        argv = []
        exp_ctor = None
        cfg_all = {}
        if ctor is not None:
            pos, opts, exp_ctor, cfgc = choose_values(rng, ctor, as_positional)
            argv += pos + opts
            cfg_all.update(cfgc)
        pos, opts, exp_m, cfgm = choose_values(rng, comp["params"], as_positional)
        sub = comp["path"]
        if ctor is not None and cfgm:
            cfg_all[sub[0]] = dict(cfgm)
            cfgm = {}
        decoys = []
        if ctor is not None and rng.random() < 0.5:
            # settings for the other methods too: the method named on the command line is the one that runs, with its own settings
            for other, oc in comps.items():
                if other != label and oc.get("params"):
                    _, _, _, ocfg = choose_values(rng, oc["params"], False)
                    if ocfg:
                        cfg_all[oc["path"][0]] = dict(ocfg)
                        decoys.append(oc["path"][0])
        prefix = comp.get("prefix", [])
        argv_tail = list(sub) + pos + opts
        cfg_args = []
        cfg = dict(cfg_all)
        if cfg:
            for k in reversed(prefix):
                cfg = {k: cfg}
        if cfgm:
            # config for a plain function / function in a list goes after the subcommand name
            mcfg = dict(cfgm)
            argv_tail = list(sub) + [f"--config={json.dumps(mcfg)}"] + pos + opts
        if kind in ("functions_list",) and cfgm and rng.random() < 0.5:
            # the function's settings given at the parent level instead: a section named like the subcommand
            cfg = {sub[0]: dict(cfgm)}
            argv_tail = list(sub) + pos + opts
        if cfg:
            parts = [cfg]
            sect = cfg
            for k in prefix:
                sect = sect[k]
            sect = sect.get(sub[0]) if sub else None
            if isinstance(sect, dict) and len(sect) >= 2 and rng.random() < 0.5:
                # two parent-level configs, each holding a part of the chosen subcommand's section
                keys = list(sect)
                rng.shuffle(keys)
                a, b = copy.deepcopy(cfg), copy.deepcopy(cfg)
                for which, drop in ((a, keys[len(keys) // 2 :]), (b, keys[: len(keys) // 2])):
                    d = which
                    for k in prefix:
                        d = d[k]
                    for k in drop:
                        del d[sub[0]][k]
                for k in [k for k in b if k not in (prefix[:1] or [sub[0]])]:
                    del b[k]  # constructor values only in the first one
                parts = [a, b]
                ctx.count("st.two_parent_level_configs_for_one_subcommand")
            cfg_args = []
            for n_, part in enumerate(parts):
                if rng.random() < 0.5:
                    cpath = os.path.join(ctx.workdir, f"c12_{i % 20}_{n_}.json")
                    with open(cpath, "w") as f:
                        json.dump(part, f)
                    cfg_args += ["--config", cpath]
                else:
                    cfg_args += [f"--config={json.dumps(part)}"]
        full = cfg_args + prefix + argv + argv_tail
        if decoys:
            ctx.count("st.config_with_settings_for_several_methods")
        if prefix and decoys and cfg_all.get(sub[0]):
            ctx.count("st.nested_class_config_for_chosen_and_other_methods")
        mod.CALLS.clear()
        comp_obj = eval(entry, vars(mod))
        o = call(auto_cli, comp_obj, args=full, as_positional=as_positional, exit_on_error=False)
        ctx.evaluation(("c12", kind, label.split(".")[-1] if not kind.startswith("class") else "method", tuple((p["ann"], p["default"] is not None, p["kwonly"]) for p in comp["params"]), as_positional, bool(cfg_args)))
        ctx.count("mon.invocations")
        ctx.count(f"st.kind.{kind}")
        for p in comp["params"] + (ctor or []):
            ctx.count("st.param." + ("kwonly" if p["kwonly"] else "poskw") + "." + ("default" if p["default"] is not None else ("optional-nodefault" if p["ann"].startswith("Optional") else "required")))
        w = dict(kind=kind, source=src[len(HEADER):], entry=entry, argv=full, as_positional=as_positional)
        if not o.accepted:
            why = o.exc_type or o.code
            if "ambiguous option" in (o.exc_text or ""):
                why = "method-option-is-prefix-of-constructor-option"
            ctx.violation("auto_cli", f"valid-invocation-failed/{kind}/{why}", dict(w, outcome=o.brief(), tb=o.tb))
            return
        log = list(mod.CALLS)
        names = [c[0] for c in log]
        want = ([f"Comp.__init__"] if ctor is not None else []) + [label]
        if names != want:
            ctx.violation("auto_cli", f"call-log-differs/{kind}/{'ctor+method' if ctor is not None else 'function'}", dict(w, expected_calls=want, observed_calls=names))
            return
        ret = o.value
        if kind == "async_function" and hasattr(ret, "__await__"):
            import asyncio

            ret = asyncio.get_event_loop_policy().new_event_loop().run_until_complete(ret)
        if ret != f"ret:{label}":
            ctx.violation("auto_cli", f"return-value-differs/{kind}", dict(w, returned=short(ret)))
            return
        for who, exp, got in (("ctor", exp_ctor, log[0][1] if ctor is not None else None), ("callee", exp_m, log[-1][1])):
            if exp is None:
                continue
            if set(got) != set(exp):
                ctx.violation("auto_cli", f"bound-parameter-set-differs/{who}", dict(w, expected=sorted(exp), got=sorted(got)))
                return
            for name, e in exp.items():
                ev = eval_expected(mod, e)
                d = same(ev, got[name])
                if d:
                    p = next(p for p in (comp["params"] if who == "callee" else ctor) if p["name"] == name)
                    ctx.violation("auto_cli", f"wrong-binding/{who}/{e[0]}/{p['ann']}", dict(w, parameter=name, expected=short(ev), got=short(got[name]), why=d[1]))
                    return
        # omitting a required parameter must fail
        reqs = [p for p in comp["params"] if p["default"] is None and not p["ann"].startswith("Optional")]
        if reqs and (ctor is None or not as_positional):
            victim = reqs[-1]
            argv2 = list(full)
            for k, a in enumerate(full):
                if a == f"--{victim['name']}":
                    argv2 = full[:k] + full[k + 2 :]
                elif a.startswith(f"--{victim['name']}="):
                    argv2 = full[:k] + full[k + 1 :]
            if victim["name"] in cfgm or victim["name"] in cfg_all or (sub and isinstance(cfg_all.get(sub[0]), dict) and victim["name"] in cfg_all[sub[0]]):
                argv2 = full  # given through the config: nothing to omit on the command line
            elif as_positional:
                # drop the last positional
                npos = len([p for p in reqs])
                cut = list(full)
                idx = [k for k, a in enumerate(cut) if not a.startswith("--") and a not in sub]
                if idx:
                    del cut[idx[-1]]
                argv2 = cut
            if argv2 != full:
                mod.CALLS.clear()
                o2 = call(auto_cli, comp_obj, args=argv2, as_positional=as_positional, exit_on_error=False)
                ctx.count("mon.required_omitted")
                if ctor is not None:
                    ctx.count("st.required_method_parameter_omitted" + ("_nested_component" if prefix else ""))
                if o2.accepted and mod.CALLS:
                    ctx.violation("auto_cli", f"required-parameter-omitted-accepted/{kind}", dict(w, argv_without=argv2, calls=short(mod.CALLS)))
        if i < 3:
            ctx.sample(dict(kind=kind, source=src[len(HEADER):][:400], argv=full, calls=short(log, 300)))
    finally:
        programs.forget(mod, path)


def _is_json(v):
    try:
        json.loads(v)
        return True
    except Exception:
        return False


def _dict_case(ctx, i, rng, mod, src, comps, entry, label):
    """nested dict of functions: select by path, pass nothing but what is required by signature defaults"""
    import inspect

    fn = getattr(mod, label)
    sig = inspect.signature(fn)
    argv = list(comps[label]["path"])
    expected = {}
    # read the generated signature back from the module itself (the generator's source of truth is the source text)
    for nm, prm in sig.parameters.items():
        if prm.default is inspect._empty and not str(prm.annotation).startswith("typing.Optional"):
            return  # keep dict cases to all-default functions: selection is what is monitored here
        expected[nm] = prm.default if prm.default is not inspect._empty else None
    mod.CALLS.clear()
    o = call(auto_cli, eval(entry, vars(mod)), args=argv, exit_on_error=False)
    ctx.evaluation(("c12dict", label))
    ctx.count("mon.invocations")
    ctx.count("st.kind.functions_dict")
    w = dict(kind="functions_dict", source=src[len(HEADER):], argv=argv)
    if not o.accepted:
        ctx.violation("auto_cli", f"valid-invocation-failed/functions_dict/{o.exc_type or o.code}", dict(w, outcome=o.brief()))
        return
    names = [c[0] for c in mod.CALLS]
    if names != [label] or o.value != f"ret:{label}":
        ctx.violation("auto_cli", "call-log-differs/functions_dict/function", dict(w, observed_calls=names, returned=short(o.value)))
        return
    for nm, ev in expected.items():
        if same(ev, mod.CALLS[0][1][nm]):
            ctx.violation("auto_cli", "wrong-binding/callee/default/dict-function", dict(w, parameter=nm, expected=short(ev), got=short(mod.CALLS[0][1][nm])))
            return


def run_shard(ctx):
    for i, rng in ctx.cases():
        case(ctx, i, rng)
