"""C03 — every parse failure surfaces as ArgumentError or exit status 2, nothing else.

Boundary monitor on the outcome class of parse_args / parse_object / parse_string / parse_path /
parse_env under a grammar fuzzer (argv, config text, environment, objects, fault sequences), both
exit_on_error modes. Termination is judged on a logical step budget (sys.monitoring PY_START count),
never on wall-clock time."""

from __future__ import annotations

import copy
import json
import os
import sys
from typing import Any, Callable, Dict, List, Optional, Tuple, Union

from jsonargparse import ActionConfigFile, ActionYesNo, ArgumentParser, Namespace, lazy_instance
from jsonargparse.typing import PositiveFloat, PositiveInt

from vf.fixtures import zoo
from vf.gen.values import hostile_string
from vf.util import call, short

STEP_BUDGET = 4_000_000


class StepBudgetExceeded(BaseException):
    pass


class Steps:
    """Logical step counter: number of Python function entries during one API call."""

    def __init__(self):
        self.n = 0
        self.on = False
        self.available = False
        try:
            m = sys.monitoring
            m.use_tool_id(4, "vf-steps")
            m.register_callback(4, m.events.PY_START, self._cb)
            self.available = True
        except Exception:
            pass

    def _cb(self, code, offset):
        self.n += 1
        if self.n > STEP_BUDGET:
            self.n = 0
            raise StepBudgetExceeded(f"{code.co_filename}:{code.co_name}")

    def start(self):
        if self.available:
            self.n = 0
            sys.monitoring.set_events(4, sys.monitoring.events.PY_START)

    def stop(self):
        if self.available:
            sys.monitoring.set_events(4, 0)
        return self.n


STEPS = None


# ---- parser shapes --------------------------------------------------------------------------------
def shape_flat(eoe):
    p = ArgumentParser(exit_on_error=eoe, prog="app", env_prefix="APP", default_env=False)
    p.add_argument("--cfg", action=ActionConfigFile)
    p.add_argument("--num", type=int, default=1)
    p.add_argument("--ratio", type=float)
    p.add_argument("--name", type=str, default="n")
    p.add_argument("--flag", type=bool, default=False)
    p.add_argument("--yes", action=ActionYesNo)
    p.add_argument("--list", type=List[int], default=[0])
    p.add_argument("--dict", type=Dict[str, int])
    p.add_argument("--tup", type=Tuple[int, str])
    p.add_argument("--opt", type=Optional[Union[int, List[str]]])
    p.add_argument("--color", type=zoo.Color)
    p.add_argument("--pos", type=PositiveInt)
    p.add_argument("--g.x", type=int, default=0)
    p.add_argument("--g.h.y", type=str)
    p.add_argument("--choice", choices=["a", "b"])
    p.add_argument("--many", nargs="+", type=int)
    p.add_argument("--any", type=Any)
    p.add_argument("--chs", nargs="+", choices=["a", "b"])
    p.add_argument("--pf", type=PositiveFloat)
    p.add_argument("--td", type=__import__("datetime").timedelta)
    return p


def shape_classes(eoe):
    p = ArgumentParser(exit_on_error=eoe, prog="app", env_prefix="APP")
    p.add_argument("--cfg", action=ActionConfigFile)
    p.add_argument("--sub", type=zoo.Base, default=lazy_instance(zoo.SubA))
    p.add_argument("--osub", type=Optional[zoo.Base])
    p.add_argument("--subs", type=List[zoo.Base])
    p.add_argument("--dsub", type=Dict[str, zoo.Base])
    p.add_argument("--holder", type=zoo.Holder)
    p.add_argument("--dc", type=zoo.Outer)
    p.add_argument("--odc", type=Optional[zoo.Point])
    p.add_class_arguments(zoo.SubB, "grp")
    p.add_argument("--tp", type=type)
    p.add_argument("--kw", type=zoo.WithDictKwargs)
    p.add_argument("--ud", type=Union[dict, zoo.Base])  # a mapping that looks like a class spec may be just a mapping
    p.add_argument("--fac", type=Callable[[int], zoo.Base])  # a callable returning an instance: given as a class spec too
    p.add_argument("--facs", type=List[Callable[[int], zoo.Base]])
    p.add_argument("--dec", type=__import__("decimal").Decimal)
    p.add_argument("--rng", type=range)
    return p


def shape_sub(eoe):
    p = ArgumentParser(exit_on_error=eoe, prog="app", env_prefix="APP")
    p.add_argument("--cfg", action=ActionConfigFile)
    p.add_argument("--top", type=int, default=0)
    sc = p.add_subcommands(required=True)
    a = ArgumentParser(exit_on_error=eoe)
    a.add_argument("--cfg", action=ActionConfigFile)
    a.add_argument("--x", type=int, default=1)
    a.add_argument("--l", type=List[str])
    a.add_argument("pos1", type=int)
    sc.add_subcommand("fit", a)
    b = ArgumentParser(exit_on_error=eoe)
    b.add_argument("--y", type=zoo.Base)
    sc.add_subcommand("test", b)
    sc2 = b.add_subcommands(required=False, dest="cmd")
    c = ArgumentParser(exit_on_error=eoe)
    c.add_argument("--z", type=Dict[str, float])
    sc2.add_subcommand("deep", c)
    return p


def shape_links(eoe):
    p = ArgumentParser(exit_on_error=eoe, prog="app", env_prefix="APP")
    p.add_argument("--cfg", action=ActionConfigFile)
    p.add_argument("--a", type=int, default=1)
    p.add_argument("--b", type=int)
    p.add_argument("--m", type=zoo.Base, default=lazy_instance(zoo.SubA))
    p.link_arguments("a", "b", compute_fn=lambda v: v * 2)
    p.link_arguments("a", "m.init_args.a")
    return p


def shape_posonly(eoe):
    p = ArgumentParser(exit_on_error=eoe, prog="app")
    p.add_argument("first", type=int)
    p.add_argument("rest", nargs="*", type=str)
    p.add_argument("--o", type=Optional[int])
    return p


FX = {}


def shape_dcf(eoe):
    """flat parser with an existing default config file and a required option"""
    p = ArgumentParser(exit_on_error=eoe, prog="app", env_prefix="APP", default_env=False, default_config_files=[FX["ok"]])
    p.add_argument("--cfg", action=ActionConfigFile)
    p.add_argument("--num", type=int, default=1)
    p.add_argument("--req", type=int, required=True)
    p.add_argument("--name", type=str, default="n")
    p.add_argument("--list", type=List[int], default=[0])
    p.add_argument("--g.x", type=int, default=0)
    return p


SHAPES = {"dcf": shape_dcf, "flat": shape_flat, "classes": shape_classes, "sub": shape_sub, "links": shape_links, "pos": shape_posonly}

OPTIONS = {
    "dcf": ["cfg", "num", "req", "name", "list", "g.x", "g"],
    "flat": ["cfg", "num", "ratio", "name", "flag", "yes", "no_yes", "list", "dict", "tup", "opt", "color", "pos", "g.x", "g.h.y", "g", "g.h", "choice", "many", "any", "any.x", "name.x", "chs", "pf", "td"],
    "classes": ["cfg", "sub", "osub", "subs", "dsub", "holder", "dc", "odc", "grp", "tp", "kw", "dec", "rng", "fac", "fac", "facs", "fac.init_args", "fac.init_args.a", "fac.class_path", "sub.init_args.a", "sub.class_path", "sub.a", "sub.init_args", "holder.child", "holder.init_args.child", "holder.init_args.child.init_args.a",
                "dc.inner.name", "dc.inner.tags", "dc.pt", "grp.c", "kw.dict_kwargs", "kw.dict_kwargs.z", "kw.init_args.q", "subs.init_args.a", "dsub.k", "dsub.k.init_args.a", "sub.help", "osub.help"],
    "sub": ["cfg", "top", "fit.x", "x", "l", "y", "z", "fit", "test", "test.deep.z"],
    "links": ["cfg", "a", "b", "m", "m.init_args.a", "m.init_args.b", "m.class_path"],
    "pos": ["o", "first", "rest"],
}

BROKEN = [
    ("json-broken", "{"), ("json-broken", "[1,"), ("json-broken", '{"a": }'), ("yaml-broken", "a: b: c"), ("yaml-broken", "{a: [}"), ("yaml-broken", "\t- x"), ("yaml-broken", "key: 'unclosed"),
    ("yaml-self-alias", "&x [*x]"), ("yaml-self-alias", "&a {k: *a}"), ("yaml-alias", "[&a 1, *a]"), ("yaml-undefined-alias", "*nope"), ("yaml-tag", "!!python/object:os.system {}"), ("yaml-tag", "!!set {a, b}"), ("yaml-tag", "!!binary aGk="),
    ("yaml-merge", "{<<: {a: 1}, b: 2}"), ("yaml-multi-doc", "a: 1\n---\nb: 2"), ("yaml-directive", "%YAML 1.2\n---\na: 1"), ("deep-nesting", "[" * 60 + "]" * 60), ("deep-nesting-broken", "[" * 200),
    ("cfg-key-in-cfg", "{cfg: {a: 1}}"), ("cfg-key-in-cfg", "{\"cfg\": 1}"), ("cfg-key-in-cfg", "{\"cfg\": \"other.yaml\"}"), ("td-overflow", "9999999999 days, 0:0:0"), ("td-overflow", "999999999999999999999999999999:0:0"), ("int-lookalike", "0x_"), ("int-lookalike", "-0b_"), ("int-lookalike", "{\"a\": 0x__}"), ("cfg-null-section", "{\"fit\": null}"), ("cfg-null-section", "fit:"), ("cfg-unknown-subcommand", "{\"subcommand\": \"nope\"}"), ("float-lookalike", "._"), ("float-lookalike", ".__e+1"), ("float-lookalike", "{a: ._}"), ("isdigit-not-int", "²"), ("isdigit-not-int", "①"), ("isdigit-not-int", "-³"), ("isdigit-not-int", "٣"), ("class-bad-default", "vf.fixtures.zoo.BadDefault"),
    ("nul", "a\x00b"), ("surrogate", "\udcff"), ("dash", "-"), ("ddash", "--"), ("empty", ""), ("blank", "   "), ("newline", "\n"), ("huge-int", "9" * 400), ("huge-exp", "1e999999"), ("bigint-key", "{1e999: 2}"),
    ("import-missing", "no.such.module.Cls"), ("import-nonclass", "os.path"), ("import-function", "os.getcwd"), ("import-module", "json"), ("import-builtin", "builtins.int"), ("import-dotted-junk", "a..b"), ("import-trailing-dot", "os."),
    ("class-wrong", "vf.fixtures.zoo.Unrelated"), ("class-abstract", "vf.fixtures.zoo.AbstractBase"), ("class-name-only", "SubA"), ("class-name-unknown", "NoSuchCls"),
    ("spec-classpath-int", '{"class_path": 5}'), ("spec-classpath-list", '{"class_path": ["a"]}'), ("spec-classpath-null", '{"class_path": null}'), ("spec-init-list", '{"class_path": "vf.fixtures.zoo.SubA", "init_args": [1]}'),
    ("spec-init-str", '{"class_path": "vf.fixtures.zoo.SubA", "init_args": "x"}'), ("spec-init-unknown", '{"class_path": "vf.fixtures.zoo.SubA", "init_args": {"zz": 1}}'), ("spec-init-illtyped", '{"class_path": "vf.fixtures.zoo.SubA", "init_args": {"a": "x"}}'),
    ("spec-only-init", '{"init_args": {"a": 1}}'), ("spec-extra-key", '{"class_path": "vf.fixtures.zoo.SubA", "zz": 1}'), ("spec-dictkwargs-list", '{"class_path": "vf.fixtures.zoo.WithDictKwargs", "dict_kwargs": [1]}'),
    ("spec-nested-bad", '{"class_path": "vf.fixtures.zoo.Holder", "init_args": {"child": {"class_path": 7}}}'), ("spec-callable", '{"class_path": "vf.fixtures.zoo.make_base"}'), ("spec-notaclass", '{"class_path": "vf.fixtures.zoo.not_a_class"}'),
    ("list-of-junk", "[1, {}, null, [2]]"), ("dict-nonstr-keys", "{1: 2, null: 3, [1]: 4}"), ("dict-nested", '{"a": {"b": {"c": 1}}}'), ("int", "5"), ("float", "2.5"), ("bool", "true"), ("null", "null"), ("word", "abc"), ("neg", "-3"),
    ("path-missing", "/no/such/file.yaml"), ("path-dir", "DIR"), ("path-file-junk", "JUNKFILE"), ("path-file-list", "LISTFILE"), ("path-file-ok", "OKFILE"), ("path-rel-missing", "nope.yaml"), ("path-tilde", "~/nope.yaml"), ("url", "http://127.0.0.1:1/x.yaml"),
]


def gen_value(rng, fx):
    r = rng.random()
    if r < 0.6:
        cls, v = rng.choice(BROKEN)
        v = {"DIR": fx["dir"], "JUNKFILE": fx["junk"], "LISTFILE": fx["list"], "OKFILE": fx["ok"]}.get(v, v)
        return cls, v
    s, c = hostile_string(rng)
    return "hostile:" + c, s


# values aimed at the type of one option: out-of-range numbers for the numeric and registered types, scalars and mappings
# for list-valued options
TYPED = {
    "flat": {
        "pf": ["9" * 400, "1e999", "-1e999", "1" + "0" * 400, "nan"],
        "pos": ["9" * 400, "1e999", "1e400", "nan", "inf"],
        "ratio": ["9" * 400, "1" + "0" * 400],
        "num": ["9" * 5000, "1e999", "inf"],
        "td": ["9999999999 days, 0:0:0", "9" * 30 + ":0:0", "1 days, 0:0:" + "9" * 400, "0:0:1e5"],
        "chs": ["a", "3", "{a: 1}", "[a, c]", "[[a]]", "null"],
        "many": ["1", "{a: 1}", "[1, x]", "[[1]]"],
        "choice": ["[a]", "{a: 1}", "3"],
    },
    "classes": {"dec": ["1e999999999", "NaN", "sNaN", "9" * 400], "rng": ["range(1, 1" + "0" * 30 + ")", "range(0, 1, 0)", "range(" + "9" * 400 + ")"]},
}


def gen_value_for(rng, fx, shape, key):
    """gen_value, with a share of values aimed at the option's type"""
    typed = TYPED.get(shape, {}).get(key)
    if typed and rng.random() < 0.3:
        return "typed:" + key, rng.choice(typed)
    return gen_value(rng, fx)


CLASS_SEQUENCES = [
    # one option given several times on one command line: a class (or what looks like one), its sub-options, another class
    ['--ud={"class_path": "not.importable", "init_args": {"a": 1}}', "--ud=SubA"],
    ['--ud={"class_path": "vf.fixtures.zoo.SubA", "init_args": {"a": 1}}', "--ud=SubB"],
    ['--ud={"init_args": {"a": 1}}', "--ud=vf.fixtures.zoo.SubA", "--ud.a=x"],
    ["--sub=SubA", "--sub.b=k", "--sub=SubB"], ["--sub=SubA", "--sub.a=2", "--sub=SubReq"], ["--sub=SubB", "--sub.c=0.5", "--sub=Base"],
    ["--osub=SubA", "--osub.a=2", "--osub=null", "--osub.a=3"], ["--osub=SubList", "--osub.items=[1]", "--osub=SubA"],
    ["--fac=SubA", "--fac.b=q", "--fac=SubB"], ["--fac=SubReq", "--fac.a=1", "--fac=Base"], ["--kw=WithDictKwargs", "--kw.dict_kwargs.z=1", "--kw=WithDictKwargs"],
    ["--holder=Holder", "--holder.child=SubA", "--holder.child.b=w", "--holder.child=SubB"],
]


def gen_argv(rng, shape, fx):
    if shape == "classes" and rng.random() < 0.08:
        seq = list(rng.choice(CLASS_SEQUENCES))
        if rng.random() < 0.3:
            seq.insert(rng.randrange(len(seq) + 1), rng.choice(["--print_config", "--zz=1", "--sub.zz=1"]))
        return seq, ["crafted:class-sequence:" + seq[0].split("=")[0].lstrip("-")]
    n = rng.choice([1, 1, 2, 2, 3, 4, 6])
    argv, classes = [], []
    for _ in range(n):
        r = rng.random()
        if r < 0.62:
            opt = rng.choice(OPTIONS[shape])
            ocls = "known"
        elif r < 0.72:
            opt = rng.choice(["zz", "zz.y", "num.x", "list.0", "g.zz", "cfg.x", "sub.zz", "sub.init_args.zz", "dict.a.b", "print_config", "help", "sub.help", "version", "print_shtab"])
            ocls = "unknown-or-special"
        elif r < 0.84:
            base = rng.choice(OPTIONS[shape])
            opt = rng.choice([base + "+", base + ".", "." + base, base + "..x", base + "+.x", "+" + base, base + "++", base.upper(), base[: max(1, len(base) // 2)], base + "=", base + " ", "-" + base, "no_" + base])
            ocls = "malformed"
        else:
            opt = None
            ocls = "bare"
        vcls, val = gen_value_for(rng, fx, shape, opt)
        if opt is None:
            tok = rng.choice([val, "--", "-", "-x", "---", "--=", "fit", "test", "deep", "--" + val])
            argv.append(tok)
            classes.append(f"bare:{vcls}")
            continue
        form = rng.random()
        if form < 0.5:
            argv.append(f"--{opt}={val}")
        elif form < 0.85:
            argv += [f"--{opt}", val]
        elif form < 0.93:
            argv.append(f"--{opt}")
        else:
            argv += [f"--{opt}+", val] if not opt.endswith("+") else [f"--{opt}={val}"]
        classes.append(f"{ocls}:{opt if ocls == 'known' else ocls}:{vcls}")
    if rng.random() < 0.12:
        argv.insert(rng.randrange(len(argv) + 1), rng.choice(["--print_config", "--print_config=skip_null", "--req=1"]))
        classes.append("special:print_config-or-req")
    if shape == "sub" and rng.random() < 0.6:
        pos = rng.randrange(len(argv) + 1)
        argv[pos:pos] = rng.choice([["fit"], ["fit", "3"], ["test"], ["test", "deep"], ["fit", "x"], ["nope"]])
    if shape == "pos" and rng.random() < 0.7:
        argv = [rng.choice(["1", "x", "-1", "1.5"])] + argv
    return argv, classes


def gen_text(rng, shape, fx):
    """config text: a mapping over known/unknown keys with fuzz values, or plain junk"""
    r = rng.random()
    if r < 0.2:
        cls, v = gen_value(rng, fx)
        return v, ["text:" + cls]
    items, classes = [], []
    for _ in range(rng.choice([1, 2, 3])):
        key = rng.choice(OPTIONS[shape] + ["zz", "sub+", "list+", "", " ", "a b", "1", "null", "true", "~", "g.", ".g", "<<"])
        cls, v = gen_value_for(rng, fx, shape, key)
        style = rng.random()
        if style < 0.5:
            items.append(f"{json.dumps(key) if rng.random() < 0.5 else key}: {v}")
        else:
            items.append(f"{json.dumps(key)}: {json.dumps(v)}")
        classes.append(f"key:{key if key in OPTIONS[shape] else 'odd'}:{cls}")
    sep = "\n" if rng.random() < 0.7 else ", "
    text = sep.join(items)
    if sep == ", ":
        text = "{" + text + "}"
    return text, classes


def gen_object(rng, shape, fx):
    def junk(depth=0):
        r = rng.random()
        if r < 0.2:
            return rng.choice([None, 1, -1, 2.5, True, "x", "", b"b", 1j, float("nan"), object, len, ..., (1, 2), {1, 2}, frozenset(), range(3)])
        if r < 0.35 and depth < 3:
            return [junk(depth + 1) for _ in range(rng.randrange(3))]
        if r < 0.5 and depth < 3:
            return {rng.choice(["a", 1, None, (1,), "class_path", "init_args", "dict_kwargs", ""]): junk(depth + 1) for _ in range(rng.randrange(3))}
        if r < 0.6:
            return Namespace(a=junk(depth + 1)) if depth < 3 else Namespace()
        cls, v = gen_value(rng, fx)
        return v

    obj = {}
    for _ in range(rng.choice([1, 2, 3])):
        key = rng.choice(OPTIONS[shape] + ["zz", "", "a b", "sub+", "list+", "1"])
        try:
            obj[key] = junk()
        except TypeError:
            pass
        if key in TYPED.get(shape, {}) and rng.random() < 0.3:
            obj[key] = rng.choice([10**400, -(10**400), 3, "a", {"a": 1}, ["a", "c"], [[1]], float("inf"), 1e308 * 10, rng.choice(TYPED[shape][key])])
    r = rng.random()
    if r < 0.1:
        return rng.choice([Namespace(), {}, Namespace(num="x"), Namespace(g=Namespace(x="q")), {"g": Namespace(zz=1)}]), ["object:namespace"]
    if r < 0.2:
        try:
            return Namespace(**{k: v for k, v in obj.items() if isinstance(k, str) and k.isidentifier()}), ["object:namespace"]
        except Exception:
            pass
    return obj, ["object:dict"]


def gen_env(rng, shape, fx):
    env = {}
    for _ in range(rng.choice([1, 2, 3])):
        opt = rng.choice(OPTIONS[shape] + ["zz"])
        name = "APP_" + opt.replace(".", "__").upper()
        cls, v = gen_value_for(rng, fx, shape, opt)
        if "\x00" in v or "\udcff" in v:
            continue
        env[name] = v
    if shape == "sub" and rng.random() < 0.5:
        env["APP_SUBCOMMAND"] = rng.choice(["fit", "test", "nope", ""])
        env["APP_FIT__POS1"] = rng.choice(["1", "x"])
    return env, ["env"]


def make_fixture(workdir):
    fx = {"dir": os.path.join(workdir, "adir"), "junk": os.path.join(workdir, "junk.yaml"), "list": os.path.join(workdir, "list.yaml"), "ok": os.path.join(workdir, "ok.yaml")}
    os.makedirs(fx["dir"], exist_ok=True)
    open(fx["junk"], "w").write("{a: [}\n")
    open(fx["list"], "w").write("- 1\n- 2\n")
    open(fx["ok"], "w").write("num: 3\n")
    return fx


def classify_outcome(o, eoe):
    """-> None when the outcome is one of the documented ones, else a short description."""
    if o.kind == "return":
        return None
    if o.kind == "ArgumentError":
        return None if not eoe else "ArgumentError-raised-although-exit_on_error"
    if o.kind == "exit":
        if o.code == 0:
            return None  # --help / --print_config / --version / --*.help
        if o.code == 2:
            if not eoe:
                return "exit-2-although-exit_on_error-false"
            if "error:" not in o.stderr or "usage:" not in o.stderr:
                return "exit-2-without-usage-and-error-line"
            return None
        return f"exit-status-{o.code}"
    return f"escape-{o.exc_type}"


def run_call(p, method, payload, env=None):
    STEPS.start()
    try:
        if method == "parse_args":
            o = call(p.parse_args, list(payload))
        elif method == "parse_string":
            o = call(p.parse_string, payload)
        elif method == "parse_object":
            o = call(p.parse_object, payload)
        elif method == "parse_path":
            o = call(p.parse_path, payload)
        elif method == "parse_env":
            o = call(p.parse_env, dict(payload))
        elif method == "parse_args_env":
            from vf.util import environ

            with environ(env):
                o = call(p.parse_args, list(payload), env=True)
        else:
            raise AssertionError(method)
    finally:
        n = STEPS.stop()
    return o, n


def shrink_argv(p_factory, method, argv, sig_of, want):
    argv = list(argv)
    i = 0
    while i < len(argv) and len(argv) > 1:
        cand = argv[:i] + argv[i + 1 :]
        o, _ = run_call(p_factory(), method, cand)
        if sig_of(o) == want:
            argv = cand
        else:
            i += 1
    return argv


def case(ctx, i, rng, fx):
    shape = rng.choice(list(SHAPES))
    eoe = rng.random() < 0.4
    method = rng.choice(["parse_args"] * 5 + ["parse_string"] * 2 + ["parse_object"] * 2 + ["parse_path", "parse_env", "parse_args_env"])
    factory = lambda: SHAPES[shape](eoe)  # noqa: E731
    p = factory()
    env = None
    if method == "parse_args":
        payload, classes = gen_argv(rng, shape, fx)
    elif method == "parse_string":
        payload, classes = gen_text(rng, shape, fx)
    elif method == "parse_object":
        payload, classes = gen_object(rng, shape, fx)
    elif method == "parse_path":
        text, classes = gen_text(rng, shape, fx)
        kind = rng.random()
        if kind < 0.7:
            payload = os.path.join(ctx.workdir, f"c{i % 50}.yaml")
            with open(payload, "w", encoding="utf-8", errors="surrogateescape") as f:
                try:
                    f.write(text)
                except UnicodeEncodeError:
                    f.write("a: 1")
        else:
            payload = rng.choice([fx["dir"], "/no/such.yaml", "", "nope.yaml", fx["junk"], fx["list"], "~", "-"])
            classes = ["path:" + ("dir" if payload == fx["dir"] else "missing-or-odd")]
    elif method == "parse_env":
        payload, classes = gen_env(rng, shape, fx)
    else:
        env, classes = gen_env(rng, shape, fx)
        payload, c2 = gen_argv(rng, shape, fx) if rng.random() < 0.5 else ([], [])
        classes = classes + c2
    pcopy = copy.deepcopy(payload) if method != "parse_object" else payload
    o, nsteps = run_call(p, method, payload, env)
    ctx.evaluation(("c03", shape, eoe, method, tuple(classes)))
    ctx.count(f"ev.{method}.{o.kind if o.kind != 'exit' else 'exit' + str(o.code)}")
    ctx.count("mon.outcome_class")
    ctx.count("st.exit_on_error." + str(eoe))
    ctx.count("st.shape." + shape)
    ctx.count("steps_max_bucket." + ("<1e4" if nsteps < 1e4 else "<1e5" if nsteps < 1e5 else "<1e6" if nsteps < 1e6 else ">=1e6"))
    if o.accepted:
        ctx.count("st.accepted")
    elif o.rejected:
        ctx.count("st.rejected")
    if o.kind == "raise" and o.exc_type == "StepBudgetExceeded":
        cl = sorted(set(c.split(":")[-1] for c in classes))
        culprit = "yaml-self-alias" if "yaml-self-alias" in cl or "&x [*x]" in str(pcopy) or "&a {k: *a}" in str(pcopy) or any("*" in str(v) and "&" in str(v) for v in (env or {}).values()) else "other"
        ctx.violation("termination", f"step-budget-exceeded/{culprit}", dict(shape=shape, method=method, payload=short(pcopy, 600), env=env, classes=cl, budget=STEP_BUDGET))
        return
    if o.accepted and method == "parse_args" and shape != "pos" and "--print_config" not in " ".join(map(str, pcopy)):
        # what parse_args accepts it can also print: the same command line with --print_config ends with status 0
        o3, _ = run_call(factory(), method, ["--print_config"] + list(pcopy), env)
        ctx.count("mon.print_config_of_accepted_argv")
        bad3 = classify_outcome(o3, eoe)
        if bad3 is not None or o3.kind != "exit":
            ctx.violation("outcome", f"{bad3 or 'no-exit-' + o3.kind}@{o3.frame}<-argv+print_config", dict(shape=shape, exit_on_error=eoe, method=method, argv=["--print_config"] + list(pcopy), outcome=o3.brief(), tb=o3.tb, input_classes="accepted-argv"))
            return
    bad = classify_outcome(o, eoe)
    if bad is None and i % 2 == 0 and method != "parse_object" and (o.accepted or o.rejected or (o.kind == "exit" and o.code == 0)):
        # the two exit_on_error modes report the same decision: what fails in one cannot print a config and exit 0 in the other
        o2, _ = run_call(SHAPES[shape](not eoe), method, copy.deepcopy(pcopy), env)
        ctx.count("mon.exit_on_error_modes_compared")
        cls = lambda oo: "rejected" if oo.rejected else ("accepted-or-exit0" if (oo.accepted or (oo.kind == "exit" and oo.code == 0)) else "other")  # noqa: E731
        if {cls(o), cls(o2)} == {"rejected", "accepted-or-exit0"}:
            fam = {"parse_args": "argv", "parse_args_env": "env", "parse_env": "env", "parse_string": "text", "parse_path": "path"}[method]
            first, second = (o, o2) if eoe else (o2, o)
            ctx.violation("outcome", f"failure-in-one-exit_on_error-mode-only/{'exit0' if first.kind == 'exit' and first.code == 0 else first.kind}-when-exiting-vs-{second.kind}<-{fam}", dict(shape=shape, method=method, payload=short(pcopy, 600), env=env, exit_on_error_true=first.brief(), exit_on_error_false=second.brief()))
        return
    if bad is None:
        return
    sig_of = lambda oo: (classify_outcome(oo, eoe), oo.frame)  # noqa: E731
    want = (bad, o.frame)
    if method == "parse_args":
        small = shrink_argv(factory, method, payload, sig_of, want)
        icls = "+".join(sorted({token_class(t) for t in small}))[:100]
        w = dict(shape=shape, exit_on_error=eoe, method=method, argv=small, original_argv=pcopy, outcome=o.brief(), tb=o.tb)
    else:
        icls = "+".join(sorted(set(c.split(":")[-1] for c in classes)))[:100]
        w = dict(shape=shape, exit_on_error=eoe, method=method, payload=short(pcopy, 800), env=env, outcome=o.brief(), tb=o.tb)
    w["input_classes"] = icls
    fam = {"parse_args": "argv", "parse_args_env": "env", "parse_env": "env", "parse_string": "text", "parse_path": "path", "parse_object": "object"}[method]
    ctx.violation("outcome", f"{bad}@{o.frame}<-{fam}", w)


def token_class(t):
    for cls, v in BROKEN:
        if v and v in t and len(v) > 1:
            return cls
    if t.startswith("--"):
        name = t[2:].split("=")[0]
        val = t.split("=", 1)[1] if "=" in t else None
        return "opt:" + name + ("" if val is None else ("=<empty>" if val == "" else "=<v>"))
    return "tok:" + (t if len(t) < 6 else "long")


class _OwnLoaderError(Exception):
    pass


def custom_loader_after_construction(ctx):
    """the documented way to replace a loader (set_loader with the exceptions it raises), done after parsers exist: malformed
    text read by the new loader is a parse failure like any other. Runs last in the shard (the loader table is global)."""
    from jsonargparse import set_loader
    from jsonargparse import _loaders_dumpers as ld

    mode = "vf_own_mode"

    def own_loader(text):
        if "[" in text and "]" not in text:
            raise _OwnLoaderError("unbalanced bracket")
        import yaml

        return yaml.safe_load(text)

    set_loader(mode, ld.yaml_load, exceptions=ld.get_loader_exceptions("yaml"))
    for eoe in (False, True):
        p = ArgumentParser(exit_on_error=eoe, parser_mode=mode, env_prefix="APP", default_env=False)
        p.add_argument("--cfg", action=ActionConfigFile)
        p.add_argument("--num", type=int, default=1)
        p.add_argument("--many", nargs="+", type=int)
        call(p.parse_string, "num: 2")
        set_loader(mode, own_loader, exceptions=(_OwnLoaderError,))
        bad_file = os.path.join(ctx.workdir, "own_bad.yaml")
        with open(bad_file, "w") as f:
            f.write("num: [1,\n")
        for method, payload in (("parse_string", "num: [1,"), ("parse_path", bad_file), ("parse_args", ["--cfg", bad_file]), ("parse_args", ["--cfg", "num: [1,"]), ("parse_env", {"APP_MANY": "[1,"})):
            o, _ = run_call(p, method, payload)
            ctx.count("mon.custom_loader_set_after_construction")
            ctx.evaluation(("own-loader", method, eoe))
            bad = classify_outcome(o, eoe)
            if bad is not None:
                ctx.violation("outcome", f"{bad}@{o.frame}<-custom-loader-set-after-parser-construction", dict(method=method, payload=short(payload, 100), exit_on_error=eoe, outcome=o.brief(), tb=o.tb, input_classes="malformed-text-for-own-loader"))
        set_loader(mode, ld.yaml_load, exceptions=ld.get_loader_exceptions("yaml"))


def run_shard(ctx):
    FX.update(make_fixture(ctx.workdir))
    global STEPS
    STEPS = Steps()
    fx = make_fixture(ctx.workdir)
    os.environ.pop("APP_CFG", None)
    for i, rng in ctx.cases():
        case(ctx, i, rng, fx)
        if i < 3:
            pass
    custom_loader_after_construction(ctx)
    ctx.extra(step_counter_available=STEPS.available, step_budget=STEP_BUDGET)
    rng = ctx.case_rng(0)
    ctx.sample(dict(argv=gen_argv(rng, "flat", fx)[0], text=gen_text(rng, "classes", fx)[0][:200]))
