"""C15 — a linked argument always equals the function of its sources (links applied on parse).

Invariant monitor on every successful parse of every channel: the target equals compute_fn(final source
values) recomputed with the generator's own copy of the function; the target is not required, its
command line option is rejected (plain-argument targets), it is absent from dumps, and re-parsing a dump
reconstructs it."""

from __future__ import annotations

import copy
import json
import os
from typing import Any, Dict, List, Optional

import yaml

from jsonargparse import ActionConfigFile, ArgumentParser, Namespace, lazy_instance

from vf.fixtures import zoo
from vf.util import call, environ, same, short, strip_prov


def double(v):
    return v * 2


def add3(a, b):
    return a * 1000 + b


def sum_group(d):
    d = d.as_dict() if hasattr(d, "as_dict") else d
    return sum(v for v in d.values() if isinstance(v, int))


def sum_list(v):
    return sum(v or [])


def to_len(d: dict):
    return len(d)


def tagged(v):
    return f"<{v}>"


def describe_src(v):
    return "none" if v is None else "spec:" + str(v.get("class_path") if hasattr(v, "get") else v)


CHAIN = {"accepted": 0, "refused": 0}


def build(shape, eoe=False):
    p = ArgumentParser(exit_on_error=eoe, prog="app", env_prefix="APP")
    p.add_argument("--cfg", action=ActionConfigFile)
    links = []  # (sources, target, fn, target kind)
    p.add_argument("--a", type=int, default=1)
    p.add_argument("--g.x", type=int, default=2)
    p.add_argument("--g.y", type=int, default=3)
    if "plain" in shape:
        p.add_argument("--b", type=int, required="req_target" in shape)
        fn = double if "fn" in shape else None
        p.link_arguments("a", "b", compute_fn=fn)
        links.append((["a"], "b", fn, "plain"))
    if "multi" in shape:
        p.add_argument("--t", type=int)
        p.link_arguments(("a", "g.x"), "t", compute_fn=add3)
        links.append((["a", "g.x"], "t", add3, "plain"))
    if "group_src" in shape:
        p.add_argument("--d", type=Dict[str, int])
        p.link_arguments("g", "d")
        links.append((["g"], "d", "ns2dict", "plain"))
        p.add_argument("--n", type=int)
        p.link_arguments("g", "n", compute_fn=to_len)
        links.append((["g"], "n", "ns2dict-len", "plain"))
        p.add_argument("--gs", type=int)
        p.link_arguments("g", "gs", compute_fn=sum_group)
        links.append((["g"], "gs", sum_group, "plain"))
        p.add_argument("--sizes", type=List[int], default=[1, 2])
        p.add_argument("--nsz", type=int)
        p.link_arguments("sizes", "nsz", compute_fn=sum_list)
        links.append((["sizes"], "nsz", sum_list, "plain"))
        # targets that keep a mapping as it is given (no type / Any): the group arrives as it is, whatever the target held
        p.add_argument("--u")
        p.link_arguments("g", "u")
        links.append((["g"], "u", "group-as-is", "plain"))
        p.add_argument("--w", type=Any)
        p.link_arguments("g", "w")
        links.append((["g"], "w", "group-as-is", "plain"))
    if "group_src" in shape and "chain_via_group" in shape:
        # a target inside a group that is itself the source of other links: a chain, refused like a direct one - or, if it is
        # accepted, every target still equals the function of the *final* values of its sources
        try:
            p.link_arguments("a", "g.x")
            links.append((["a"], "g.x", None, "plain"))
            CHAIN["accepted"] += 1
        except ValueError:
            CHAIN["refused"] += 1
    if "class_target" in shape:
        p.add_argument("--m", type=zoo.Base, default=lazy_instance(zoo.SubA, a=7))
        p.link_arguments("a", "m.init_args.a")
        links.append((["a"], "m.init_args.a", None, "init_arg"))
        p.add_argument("--s", type=str, default="sv")
        p.link_arguments("s", "m.init_args.b", compute_fn=tagged)
        links.append((["s"], "m.init_args.b", tagged, "init_arg-may-be-absent"))
    if "list_target" in shape:
        p.add_argument("--ms", type=List[zoo.Base])
        p.link_arguments("g.y", "ms.init_args.a")
        links.append((["g.y"], "ms.init_args.a", None, "list-items"))
    if "class_src" in shape:
        p.add_argument("--src", type=Optional[zoo.Base], default=lazy_instance(zoo.SubA, a=4))
        p.add_argument("--k", type=Optional[int], default=-1)
        p.link_arguments("src.init_args.a", "k")
        links.append((["src.init_args.a"], "k", None, "plain-from-class-init-arg"))
        p.add_argument("--osrc", type=Optional[zoo.Base])
        p.add_argument("--tk", type=str, default="dflt")
        p.link_arguments("osrc", "tk", compute_fn=describe_src)
        links.append((["osrc"], "tk", describe_src, "plain-from-optional-class"))
    return p, links


def build_sub(eoe=False, parent_links=False):
    p = ArgumentParser(exit_on_error=eoe, prog="app", env_prefix="APP")
    p.add_argument("--cfg", action=ActionConfigFile)
    p.add_argument("--top", type=int, default=0)
    if parent_links:
        p.add_argument("--top2", type=int)
        p.link_arguments("top", "top2", compute_fn=double)
    sc = p.add_subcommands(required=True)
    a = ArgumentParser(exit_on_error=eoe)
    a.add_argument("--x", type=int, default=5)
    a.add_argument("--y", type=int)
    a.add_argument("--mm", type=zoo.Base, default=lazy_instance(zoo.SubA))
    a.link_arguments("x", "y", compute_fn=double)
    a.link_arguments("x", "mm.init_args.a")
    sc.add_subcommand("fit", a)
    b = ArgumentParser(exit_on_error=eoe)
    b.add_argument("--q", type=int, default=1)
    sc.add_subcommand("test", b)
    return p


def expected_value(cfg, sources, fn):
    vals = []
    for s in sources:
        v = cfg[s]
        vals.append(v)
    if fn == "ns2dict":
        return vals[0].as_dict()
    if fn == "group-as-is":
        return vals[0].as_dict()
    if fn == "ns2dict-len":
        return to_len(vals[0].as_dict())
    if fn is None:
        return vals[0]
    return fn(*vals)


def check_result(ctx, p, links, cfg, w):
    """-> True when all link invariants hold on cfg"""
    for sources, target, fn, kind in links:
        ctx.count("mon.link_invariant")
        ctx.count(f"st.target.{kind}")
        try:
            exp = expected_value(cfg, sources, fn)
        except KeyError:
            ctx.count("source_absent_link_documented_as_skipped")
            w["_skipped"] = True
            continue
        if kind == "list-items":
            items = cfg.get("ms")
            if not items:
                continue
            for it in items:
                ia = it.get("init_args")
                if ia is not None and "a" in ia and ia["a"] != exp:
                    ctx.violation("link", "target-differs-from-source/list-items", dict(w, target=target, expected=exp, got=ia["a"], config=short(cfg, 600)))
                    return False
            continue
        if kind.startswith("init_arg"):
            m = cfg.get(target.split(".")[0])
            if m is None:
                continue
            ia = m.get("init_args")
            leaf = target.split(".")[-1]
            if ia is None or leaf not in ia:
                if kind == "init_arg-may-be-absent":
                    continue  # the selected class does not define the parameter: documented as ignored
                ctx.violation("link", "target-missing/init_arg", dict(w, target=target, config=short(cfg, 600)))
                return False
            got = ia[leaf]
        else:
            if target not in cfg:
                ctx.violation("link", f"target-missing/{kind}", dict(w, target=target, config=short(cfg, 600)))
                return False
            got = cfg[target]
        if fn == "group-as-is" and hasattr(got, "as_dict"):
            got = got.as_dict()
            ctx.count("st.group_source_into_untyped_target")
        if same(got, exp):
            ctx.violation("link", f"target-differs-from-function-of-sources/{kind}/{'fn' if callable(fn) else ('identity' if fn is None else fn)}", dict(w, target=target, sources={s: short(cfg.get(s)) for s in sources}, expected=short(exp), got=short(got)))
            return False
    return True


def check_dump(ctx, p, links, cfg, w):
    o = call(p.dump, copy.deepcopy(cfg))
    ctx.count("mon.dump_checked")
    if not o.accepted:
        ctx.violation("link", f"dump-failed/{o.exc_type}", dict(w, outcome=o.brief()))
        return
    d = yaml.safe_load(o.value) or {}
    for sources, target, fn, kind in links:
        cur = d
        present = True
        parts = target.split(".")
        if kind == "list-items":
            items = d.get("ms") or []
            if any(isinstance(it, dict) and "a" in (it.get("init_args") or {}) for it in items):
                ctx.violation("link", "target-in-dump/list-items", dict(w, dump=o.value))
                return
            continue
        for part in parts:
            if isinstance(cur, dict) and part in cur:
                cur = cur[part]
            else:
                present = False
                break
        if present:
            ctx.violation("link", f"target-in-dump/{kind}", dict(w, target=target, dump=o.value))
            return
    ob = call(p.parse_string, o.value)
    if not ob.accepted:
        ctx.violation("link", f"reparse-of-dump-rejected/{ob.exc_type}", dict(w, dump=o.value, outcome=ob.brief()))
        return
    dd = same(strip_prov(cfg, {"cfg"}).as_dict(), strip_prov(ob.value, {"cfg"}).as_dict())
    if dd:
        ctx.violation("link", "reparse-of-dump-does-not-reconstruct-target", dict(w, at=dd[0], why=dd[1], dump=o.value))


def case_flat(ctx, i, rng):
    feats = [f for f in ["plain", "fn", "multi", "group_src", "class_target", "list_target", "class_src", "req_target"] if rng.random() < 0.55]
    if "group_src" in feats and rng.random() < 0.3:
        feats.append("chain_via_group")
    if not any(f in feats for f in ("plain", "multi", "group_src", "class_target", "list_target", "class_src")):
        feats.append("plain")
    shape = set(feats)
    o = call(build, shape)
    if not o.accepted:
        ctx.violation("link", f"link-declaration-failed/{o.exc_type}", dict(shape=sorted(shape), outcome=o.brief()))
        return
    p, links = o.value
    # source values through a random mix of channels
    srcvals = {"a": rng.randrange(1, 90), "g.x": rng.randrange(1, 90), "g.y": rng.randrange(1, 90)}
    argv, cfgd, env = [], {}, {}
    if any(t == "g.x" for _, t, _, _ in links):
        del srcvals["g.x"]  # the chain was accepted: g.x is a link target now and is not given by the user
        ctx.count("st.chain_through_group_source.accepted")
    elif "chain_via_group" in shape:
        ctx.count("st.chain_through_group_source.refused")
    for k, v in srcvals.items():
        r = rng.random()
        if r < 0.35:
            argv.append(f"--{k}={v}")
        elif r < 0.6:
            cfgd[k] = v
        elif r < 0.75:
            env["APP_" + k.replace(".", "__").upper()] = str(v)
        # else: default
    if "class_target" in shape:
        r = rng.random()
        if r < 0.3:
            argv.append(rng.choice(["--m=SubA", "--m=Base", "--m=SubB"]))
        elif r < 0.5:
            cfgd["m"] = {"class_path": rng.choice(["vf.fixtures.zoo.SubA", "vf.fixtures.zoo.SubB"])}
        if rng.random() < 0.4:
            argv.append("--s=" + rng.choice(["w1", "w 2"]))
    if "list_target" in shape and rng.random() < 0.8:
        ms = [{"class_path": "vf.fixtures.zoo.SubA", "init_args": {"b": "l"}}, {"class_path": "vf.fixtures.zoo.Base"}]
        if rng.random() < 0.5:
            ms.append({"class_path": "vf.fixtures.zoo.SubList"})  # a class without the linked parameter
        rng.shuffle(ms)
        cfgd["ms"] = ms
    if "class_src" in shape:
        r = rng.random()
        if r < 0.3:
            argv.append("--src.init_args.a=" + str(rng.randrange(50)))
        elif r < 0.5:
            cfgd["src"] = {"class_path": "vf.fixtures.zoo.SubA", "init_args": {"a": rng.randrange(50)}}
        elif r < 0.65:
            argv.append("--src=null")
        r = rng.random()
        if r < 0.3:
            argv.append("--osrc=SubA")
        elif r < 0.45:
            cfgd["osrc"] = {"class_path": "vf.fixtures.zoo.SubB"}
            if rng.random() < 0.5:
                argv.append("--osrc=null")
    # a value supplied for the target itself (config / object only: the option of a plain target must be rejected)
    tgt_supplied = None
    if rng.random() < 0.5:
        for sources, target, fn, kind in links:
            if kind in ("plain", "plain-from-optional-class") and rng.random() < 0.6:
                cfgd[target] = {"b": 7777, "t": 7777, "d": {"zz": 1}, "n": 7777, "k": 7777, "tk": "user-given", "u": {"old": 1, "x": 7777}, "w": {"old": 1, "x": 7777}}.get(target, 7777)
                if target in ("u", "w"):
                    ctx.count("st.mapping_supplied_for_untyped_target_of_group_link")
                tgt_supplied = target
            if kind == "init_arg" and rng.random() < 0.5:
                cfgd.setdefault("m", {"class_path": "vf.fixtures.zoo.SubA"}).setdefault("init_args", {})["a"] = 7777
                tgt_supplied = target
    channel = rng.choice(["argv+cfg", "object", "string", "env"])
    if "req_target" in shape:
        ctx.count("st.target_required_declared")
    nested_cfg = {}
    for k, v in cfgd.items():
        cur = nested_cfg
        parts = k.split(".")
        for part in parts[:-1]:
            cur = cur.setdefault(part, {})
        cur[parts[-1]] = v
    w = dict(shape=sorted(shape), channel=channel, argv=argv, config=nested_cfg, env=env, target_supplied=tgt_supplied)
    with environ(env):
        if channel == "argv+cfg":
            full = ([f"--cfg={json.dumps(nested_cfg)}"] if nested_cfg else []) + argv
            o = call(p.parse_args, full, env=bool(env))
        elif channel == "object":
            obj = copy.deepcopy(nested_cfg)
            o = call(p.parse_object, obj, env=bool(env))
        elif channel == "string":
            o = call(p.parse_string, json.dumps(nested_cfg), env=bool(env))
        else:
            o = call(p.parse_env)
    ctx.evaluation(("c15", tuple(sorted(shape)), channel, tgt_supplied, tuple(sorted(cfgd)), tuple(a.split("=")[0] for a in argv)))
    ctx.count(f"ev.{channel}.{o.kind}")
    if not o.accepted:
        if o.rejected:
            ctx.violation("link", f"valid-inputs-rejected/{channel}", dict(w, outcome=o.brief()))
        else:
            ctx.observe("escape (C03)", o.brief())
        return
    cfg = o.value
    if tgt_supplied:
        ctx.count("st.target_value_supplied")
    ok = check_result(ctx, p, links, cfg, w)
    if ok and not w.pop("_skipped", False):
        check_dump(ctx, p, links, cfg, w)
    if ok and "group_src" in shape and rng.random() < 0.6:
        # the program edits sources inside the configuration it got back and parses that again: targets follow the new values
        edited = cfg
        edited["g.x"] = cfg["g.x"] + 1000
        if isinstance(edited.get("sizes"), list):
            edited["sizes"].append(500)
        o3 = call(p.parse_object, edited) if rng.random() < 0.6 else call(p.parse_string, json.dumps({"g": {"x": edited["g.x"], "y": edited["g.y"]}, "sizes": edited["sizes"], "a": edited["a"]}))
        ctx.count("mon.reparse_after_editing_sources_in_the_result")
        if o3.accepted:
            w3 = dict(w, step="result edited in place (g.x += 1000, sizes.append(500)) and parsed again")
            if o3.value["g.x"] != edited["g.x"]:
                ctx.violation("link", "edited-source-lost-on-reparse", dict(w3, got=short(o3.value, 400)))
            else:
                check_result(ctx, p, links, o3.value, w3)
        elif o3.rejected:
            ctx.violation("link", "valid-inputs-rejected/reparse-of-edited-result", dict(w, outcome=o3.brief()))
    # command line option of a plain target must be rejected
    for sources, target, fn, kind in links:
        if kind.startswith("plain"):
            o2 = call(p.parse_args, [f"--{target}=5"])
            ctx.count("mon.target_option_rejected")
            if o2.accepted:
                ctx.violation("link", "target-option-accepted", dict(w, target=target, result=short(o2.value)))
            break
    if i < 3:
        ctx.sample(dict(w, result=short(cfg, 400)))


def _with_environ(environ, fn, *a, **k):
    old = {key: os.environ.get(key) for key in environ}
    os.environ.update(environ)
    try:
        return call(fn, *a, **k)
    finally:
        for key, v in old.items():
            if v is None:
                os.environ.pop(key, None)
            else:
                os.environ[key] = v


def case_sub(ctx, i, rng):
    parent_links = rng.random() < 0.4
    p = build_sub(parent_links=parent_links)
    x = rng.randrange(1, 60)
    links = [(["fit.x"], "fit.y", double, "plain"), (["fit.x"], "fit.mm.init_args.a", None, "init_arg")]
    channel = rng.choice(["argv", "object", "string", "cfg-arg", "reparse", "env", "env"])
    user_y = rng.random() < 0.4
    if channel == "env" and rng.random() < 0.5:
        x = None  # the subcommand is named by the environment, the link's source keeps its default
    sect = {"x": x}
    if user_y:
        sect["y"] = 7777
    doc = {"subcommand": "fit", "fit": sect}
    if channel == "env":
        env = {"APP_SUBCOMMAND": "fit"}
        if x is not None:
            env["APP_FIT__X"] = str(x)
        if user_y:
            env["APP_FIT__Y"] = "7777"
        o = call(p.parse_env, env) if rng.random() < 0.5 else _with_environ(env, p.parse_args, [], env=True)
        ctx.count("st.subcommand_links.named_by_environment" + ("" if x is not None else ".source_default_only"))
    elif channel == "argv":
        o = call(p.parse_args, ["fit", f"--x={x}"])
    elif channel == "object":
        o = call(p.parse_object, copy.deepcopy(doc))
    elif channel == "string":
        o = call(p.parse_string, json.dumps(doc))
    elif channel == "cfg-arg":
        o = call(p.parse_args, [f"--cfg={json.dumps(doc)}"])
    else:
        o0 = call(p.parse_args, ["fit", f"--x={x}"])
        o = call(p.parse_string, p.dump(o0.value)) if o0.accepted else o0
    ctx.evaluation(("c15sub", channel, parent_links, user_y))
    ctx.count(f"ev.sub-{channel}.{o.kind}")
    ctx.count("st.subcommand_links")
    w = dict(shape="subcommand-links", parent_has_links=parent_links, channel=channel, doc=doc)
    if not o.accepted:
        ctx.violation("link", f"valid-inputs-rejected/sub-{channel}", dict(w, outcome=o.brief()))
        return
    cfg = o.value
    for sources, target, fn, kind in links:
        ctx.count("mon.link_invariant")
        try:
            got = cfg[target]
        except KeyError:
            ctx.violation("link", f"target-missing/subcommand-{kind}", dict(w, target=target, config=short(cfg, 500)))
            return
        exp = expected_value(cfg, sources, fn)
        if same(got, exp):
            ctx.violation("link", f"target-differs-from-function-of-sources/subcommand-{kind}", dict(w, target=target, expected=exp, got=got, config=short(cfg, 500)))
            return


def case_save(ctx, i, rng):
    """link targets stay out of everything save() writes: the main file and the sub-files of arguments that were loaded from
    their own config file (multi-file save)"""
    import shutil

    import yaml

    from vf.fixtures import zoo

    root = os.path.join(ctx.workdir, f"sv{i % 4}")
    shutil.rmtree(root, ignore_errors=True)
    os.makedirs(os.path.join(root, "in"))
    os.makedirs(os.path.join(root, "out"))
    p = ArgumentParser(exit_on_error=False)
    p.add_argument("--cfg", action=ActionConfigFile)
    p.add_argument("--src", type=int, default=1)
    p.add_argument("--m", type=zoo.Base, enable_path=True)
    p.add_class_arguments(zoo.SubA, "grp", sub_configs=True)
    p.link_arguments("src", "m.init_args.a", compute_fn=double if rng.random() < 0.5 else None)
    p.link_arguments("src", "grp.a")
    with open(os.path.join(root, "in", "m.yaml"), "w") as f:
        yaml.safe_dump({"class_path": "vf.fixtures.zoo.SubA", "init_args": {"b": "fromfile"}}, f)
    with open(os.path.join(root, "in", "grp.yaml"), "w") as f:
        yaml.safe_dump({"b": "grpfile"}, f)
    src = rng.randrange(2, 50)
    old = os.getcwd()
    os.chdir(os.path.join(root, "in"))
    try:
        o = call(p.parse_args, [f"--src={src}", "--m", "m.yaml", "--grp", "grp.yaml"])
    finally:
        os.chdir(old)
    ctx.count("mon.save_checked")
    ctx.evaluation(("save", src % 3))
    w = dict(src=src)
    if not o.accepted:
        ctx.violation("link", f"parse-with-sub-config-files-rejected/{o.exc_type}", dict(w, outcome=o.brief()))
        return
    multifile = rng.random() < 0.7
    os_ = call(p.save, o.value, os.path.join(root, "out", "main.yaml"), multifile=multifile)
    if not os_.accepted:
        ctx.violation("link", f"save-failed/{os_.exc_type}", dict(w, outcome=os_.brief()))
        return
    for fn in sorted(os.listdir(os.path.join(root, "out"))):
        with open(os.path.join(root, "out", fn)) as f:
            doc = yaml.safe_load(f)
        where = "main-file" if fn == "main.yaml" else "sub-file"
        leaked = []
        if isinstance(doc, dict):
            if fn == "main.yaml":
                if isinstance(doc.get("m"), dict) and "a" in (doc["m"].get("init_args") or {}):
                    leaked.append("m.init_args.a")
                if isinstance(doc.get("grp"), dict) and "a" in doc["grp"]:
                    leaked.append("grp.a")
            else:
                if "a" in (doc.get("init_args") or {}) or "a" in doc:
                    leaked.append(fn + ":a")
        if leaked:
            ctx.violation("link", f"target-in-saved-file/{where}/{'multifile' if multifile else 'single'}", dict(w, file=fn, content=short(doc, 300), leaked=leaked))
            return
    ob = call(p.parse_path, os.path.join(root, "out", "main.yaml"))
    if not ob.accepted or ob.value.m.init_args.a != o.value.m.init_args.a or ob.value.grp.a != src:
        ctx.violation("link", "reparse-of-saved-config-does-not-reconstruct-target", dict(w, outcome=ob.brief()))


def run_shard(ctx):
    for k in list(os.environ):
        if k.startswith("APP_"):
            del os.environ[k]
    for i, rng in ctx.cases():
        if i % 8 == 5:
            case_save(ctx, i, rng)
        elif i % 4 == 3:
            case_sub(ctx, i, rng)
        else:
            case_flat(ctx, i, rng)
