"""C05 — the same settings give the same configuration through every input channel.

N-version comparator: one logical set of settings is rendered for argv, --cfg file, --cfg string,
parse_string (nested and dotted), parse_path, parse_object (nested dict, dotted dict, Namespace) and the
environment; all outcomes must be equal or all rejected. A JSON document is parsed under the yaml, json,
jsonnet and omegaconf parser modes of otherwise identical parsers."""

from __future__ import annotations

import copy
import json
import os

from jsonargparse import Namespace

from vf.fixtures import zoo
from vf.checks import c01
from vf.gen import parsers as P
from vf.gen import types as G
from vf.gen.values import classify_string
from vf.util import call, diff_class, same_steps, short, steps_str, strip_prov

STRLIKE = {"str", "enum", "rstr", "literal", "reg"}


def env_name(dest):
    return "APP_" + dest.replace(".", "__").upper()


def nested_ns(d):
    ns = Namespace()
    for k, v in d.items():
        ns[k] = nested_ns(v) if isinstance(v, dict) and v.get("__ns__", True) and False else v
    return ns


def text_ambiguous(t, inp):
    """A non-string scalar at a position where some Union member would take its *text* as a string has no
    unambiguous textual form on the command line (DESIGN C05 S). Also: any value under Any."""
    if isinstance(inp, str) or inp is None:
        return False
    if not t.has("union", "optional"):
        return False
    if isinstance(inp, (list, dict)):
        return False
    text = json.dumps(inp)
    for n in t.walk():
        if n.kind == "union":
            for m in n.children:
                if m.has(*STRLIKE) and m.kind in STRLIKE:
                    o = call(c01.single_parser(m).parse_args, [f"--k={text}"])
                    if o.accepted and isinstance(o.value.k, str) or (o.accepted and o.value.k is not None and not isinstance(o.value.k, (int, float, bool))):
                        return True
    return False


def respell_numbers(text, rng):
    """Other valid JSON spellings of the same numbers (json.dumps always writes 1e+16 / 25000000000.0)."""
    import re

    r = rng.random()
    if r < 0.4:
        return text
    # only numbers in value position (after ': ', ', ' or '['), never text inside strings
    pre, post = r"(?:(?<=: )|(?<=, )|(?<=\[))", r"(?=[,\]}])"
    text = re.sub(pre + r"(-?\d(?:\.\d+)?)e\+(\d+)" + post, r"\1e\2" if r < 0.7 else r"\1E\2", text)
    text = re.sub(pre + r"25000000000\.0" + post, "25e9" if r < 0.7 else "2.5E10", text)
    text = re.sub(pre + r"123456789\.125" + post, "1.23456789125e8", text)
    return text


def subkey_argv(inputs, types):
    """argv with structured values spelled option by option: --k=<class> --k.init_args.x=v, --k.field=v, --k.key=v.
    -> argv or None when no setting has such a spelling"""
    import re

    argv, used = [], False
    word = re.compile(r"^[A-Za-z_][A-Za-z0-9_]*$")
    from vf.gen.types import DATACLASS_FIELD_T

    for k, v in inputs.items():
        t = types[k]
        if t.kind == "optional" and v is not None:
            t = t.children[0]
        # which Union member reads a text is unspecified: such elements keep the whole-value spelling
        if t.kind == "dict" and isinstance(v, dict) and any(text_ambiguous(t.children[0], x) for x in v.values()):
            t = G.ANY
        if t.kind == "dataclass" and isinstance(v, dict) and any(a in DATACLASS_FIELD_T.get(t.extra, {}) and text_ambiguous(DATACLASS_FIELD_T[t.extra][a], x) for a, x in v.items()):
            t = G.ANY
        if t.kind == "class" and isinstance(v, dict) and set(v) <= {"class_path", "init_args"} and isinstance(v.get("init_args", {}), dict) and v.get("init_args"):
            argv.append(f"--{k}={v['class_path']}")
            for a, x in v["init_args"].items():
                argv.append(f"--{k}.init_args.{a}={P.argv_text(x)}")
            used = True
        elif t.kind == "dataclass" and isinstance(v, dict) and v:
            for a, x in v.items():
                argv.append(f"--{k}.{a}={P.argv_text(x)}")
            used = True
        elif t.kind == "dict" and t.extra is str and isinstance(v, dict) and v and all(isinstance(a, str) and word.match(a) for a in v):
            argv.append(f"--{k}={{}}")  # item options add to the dict built so far (the default's items otherwise)
            for a, x in v.items():
                argv.append(f"--{k}.{a}={P.argv_text(x)}")
            used = True
        else:
            argv.append(f"--{k}={P.argv_text(v)}")
    if not used or any(a.split("=", 1)[1].startswith("-") and a.split("=", 1)[1] == "--" for a in argv):
        return None
    return argv


def finite(v):
    """Non-finite floats have no JSON spelling (json.dumps writes the Python extension -Infinity / NaN, which the YAML
    reader takes for text wherever the hint is not plainly float): they are replaced before the value is rendered as text."""
    if isinstance(v, float) and (v != v or v in (float("inf"), float("-inf"))):
        return 0.5 if v != v else (1e308 if v > 0 else -1e308)
    if isinstance(v, dict):
        return {k: finite(x) for k, x in v.items()}
    if isinstance(v, list):
        return [finite(x) for x in v]
    if isinstance(v, tuple):
        return tuple(finite(x) for x in v)
    if isinstance(v, set):
        return {finite(x) for x in v}
    return v



def run_channels(ctx, spec, p, inputs, workdir, n, skip_text=(), types=None):
    """-> dict channel -> Outcome"""
    nested = P.nest(inputs)
    outs = {}
    outs["object.nested"] = call(p.parse_object, copy.deepcopy(nested))
    outs["object.dotted"] = call(p.parse_object, copy.deepcopy(dict(inputs)))
    try:
        ns = Namespace()
        for k, v in inputs.items():
            ns[k] = copy.deepcopy(v)
        outs["object.namespace"] = call(p.parse_object, ns)
    except Exception:
        pass
    text = respell_numbers(json.dumps(nested, ensure_ascii=False), ctx.case_rng(n, "respell"))
    outs["string.nested"] = call(p.parse_string, text)
    outs["string.dotted"] = call(p.parse_string, json.dumps(inputs, ensure_ascii=False))
    path = os.path.join(workdir, f"c{n % 30}.json")
    with open(path, "w", encoding="utf-8") as f:
        f.write(text)
    outs["path"] = call(p.parse_path, path)
    outs["argv.cfg_file"] = call(p.parse_args, ["--cfg", path])
    outs["argv.cfg_string"] = call(p.parse_args, [f"--cfg={text}"])
    if not skip_text:
        argv = P.to_argv(inputs, "eq")
        if not any(a.split("=", 1)[1].startswith("-") and False for a in argv):
            outs["argv.options_eq"] = call(p.parse_args, argv)
        argv2 = P.to_argv(inputs, "space")
        if not any(v.startswith("-") for v in argv2[1::2]):
            outs["argv.options_space"] = call(p.parse_args, argv2)
        env = {env_name(k): P.argv_text(v) for k, v in inputs.items()}
        if not any("\x00" in v for v in env.values()):
            outs["env"] = call(p.parse_env, env)
        if types is not None:
            sk = subkey_argv(inputs, types)
            if sk is not None:
                outs["argv.subkeys"] = call(p.parse_args, sk)
                ctx.count("st.argv_subkey_spelling")
    return outs


def compare(ctx, spec, outs, inputs, types, what):
    ref_name = "object.nested"
    ref = outs[ref_name]
    dests = c01.cfg_dests(spec)
    for name, o in outs.items():
        if name == ref_name:
            continue
        ctx.count(f"mon.pair.{name}")
        ctx.count("mon.channel_pairs_compared")
        if not (o.accepted or o.rejected) or not (ref.accepted or ref.rejected):
            ctx.observe("escape (C03)", (o if not (o.accepted or o.rejected) else ref).brief())
            continue
        if o.accepted != ref.accepted:
            # which argument is responsible? retry argument by argument
            culprit = None
            for k, v in inputs.items():
                t = types[k]
                a = c01.single_parser(t)
                r1 = call(a.parse_object, {"k": copy.deepcopy(v)})
                if name == "argv.subkeys":
                    sk = subkey_argv({"k": v}, {"k": t})
                    if sk is None:
                        continue
                    r2 = call(a.parse_args, sk)
                elif name.startswith(("argv.options", "env")):
                    r2 = call(a.parse_args, [f"--k={P.argv_text(v)}"])
                else:
                    r2 = call(a.parse_string, json.dumps({"k": v}))
                if r1.accepted != r2.accepted:
                    culprit = (k, t, v)
                    break
            if culprit:
                k, t, v = culprit
                vcls = classify_string(v) if isinstance(v, str) else type(v).__name__
                if integral_float_at_restricted_int(t, v):
                    vcls = "integral-float-at-restricted-int"
                sig = f"decision-differs/{chan_family(name)}-vs-object/{t.kind if t.kind not in ('optional',) else 'optional:' + t.children[0].kind}/{vcls}"
                w = dict(channel=name, hint=t.skel, value=v, object_outcome=ref.brief(), channel_outcome=o.brief())
            else:
                sig = f"decision-differs/{chan_family(name)}-vs-object/not-localised"
                w = dict(channel=name, spec=P.spec_summary(spec), inputs=short(inputs, 600), object_outcome=ref.brief(), channel_outcome=o.brief())
            ctx.violation("channels", sig, w)
            return
        if not o.accepted:
            ctx.count("mon.pair_both_rejected")
            continue
        ctx.count("mon.pair_both_accepted")
        d = same_steps(strip_prov(ref.value, dests), strip_prov(o.value, dests))
        if d:
            steps, reason = d
            key = ".".join(str(k) for kind, k in steps if kind == "key")
            t = None
            for kk in types:
                if key == kk or key.startswith(kk + "."):
                    t = types[kk]
            vcls = "?"
            if t is not None:
                v = inputs.get([kk for kk in types if key == kk or key.startswith(kk + ".")][0])
                vcls = "+".join(sorted({classify_string(x) for x in _strings(v)} - {"plain"})) or type(v).__name__
                if integral_float_at_restricted_int(t, v):
                    vcls = "integral-float-at-restricted-int"
            sig = f"value-differs/{chan_family(name)}-vs-object/{t.kind if t is not None else 'structure'}/{diff_class((steps_str(steps), reason))}/{vcls}"
            ctx.violation("channels", sig, dict(channel=name, at=steps_str(steps), why=reason, hint=t.skel if t else None, inputs=short(inputs, 600), object_result=short(ref.value, 500), channel_result=short(o.value, 500)))
            return


def _floats(v):
    if isinstance(v, float):
        yield v
    elif isinstance(v, dict):
        for x in v.values():
            yield from _floats(x)
    elif isinstance(v, (list, tuple)):
        for x in v:
            yield from _floats(x)


def _nodes(t):
    yield t
    for c in t.children or ():
        yield from _nodes(c)


def integral_float_at_restricted_int(t, v):
    """mechanism of a known finding: the value holds a float with integral value and the hint a restricted int type"""
    try:
        return any(x.is_integer() for x in _floats(v) if x == x and abs(x) != float("inf")) and any(n.kind == "rnum" and n.extra[0] is int for n in _nodes(t))
    except Exception:
        return False


def _nonstr_keys(v):
    if isinstance(v, dict):
        return any(not isinstance(k, str) for k in v) or any(_nonstr_keys(x) for x in v.values())
    if isinstance(v, (list, tuple)):
        return any(_nonstr_keys(x) for x in v)
    return False


def _strings(v):
    if isinstance(v, str):
        yield v
    elif isinstance(v, dict):
        for x in v.values():
            yield from _strings(x)
    elif isinstance(v, (list, tuple)):
        for x in v:
            yield from _strings(x)


def chan_family(name):
    if name.startswith("argv.options"):
        return "argv"
    if name == "argv.subkeys":
        return "argv-subkeys"
    if name.startswith("argv.cfg"):
        return "cfg-arg"
    return name.split(".")[0]


def case_channels(ctx, i, rng):
    spec = P.gen_spec(rng, nargs=(1, 4), depth=3 if ctx.tier == "quick" else 4, profile="noany", nested=0.4, cfg=True, mode="yaml", defaults=0.5, sub=0.0)
    if c01.has_secret(spec):
        return
    o = call(P.build, spec, env_prefix="APP")
    if not o.accepted:
        return
    p = o.value
    types = P.arg_types(spec)
    settings = P.gen_settings(rng, spec, fill=0.8, hostile=0.3)
    # strings only at str-typed leaf positions keep hostile content; elsewhere values are plain by construction
    inputs = finite(P.settings_input(spec, settings))
    bad = None
    if rng.random() < 0.3 and inputs:
        k = rng.choice(list(inputs))
        nm = G.nearmiss(rng, types[k], allow_none=False)
        if nm is not None and "for-str" not in nm[1]:  # a non-string value at a str position has no unambiguous text
            inputs[k] = finite(nm[0])
            bad = (k, nm[1])
    if not inputs:
        return
    if any(types[k].has("union") and _nonstr_keys(v) for k, v in inputs.items()):
        # JSON object keys are strings: a mapping with int keys under a Union (where a Dict[str, ...] member may take the
        # same text) has no faithful textual form
        ctx.count("int_keyed_mapping_under_union_not_rendered")
        return
    skip_text = [k for k, v in inputs.items() if text_ambiguous(types[k], v) or types[k].has("any") or v == "--"]  # argparse reads "--k=--" as no value
    if skip_text:
        ctx.count("text_ambiguous_settings_not_rendered_on_argv_env")
    outs = run_channels(ctx, spec, p, inputs, ctx.workdir, i, skip_text, types=types)
    ctx.evaluation(("c05", tuple(sorted(t.skel for t in types.values())), bad[1] if bad else "valid", tuple(sorted(outs))))
    for t in types.values():
        for kd in t.kinds():
            ctx.count("st.kind." + kd)
    ctx.count("st.settings." + ("nearmiss" if bad else "valid"))
    compare(ctx, spec, outs, inputs, types, "channels")
    if i < 2:
        ctx.sample(dict(spec=P.spec_summary(spec), inputs=short(inputs, 300), channels=sorted(outs)))


def case_modes(ctx, i, rng):
    """the same JSON document under the four parser modes"""
    base = P.gen_spec(rng, nargs=(1, 4), depth=3, profile="noany", nested=0.4, cfg=True, mode="yaml", defaults=0.4, sub=0.0)
    if c01.has_secret(base):
        return
    types = P.arg_types(base)
    settings = P.gen_settings(rng, base, fill=0.8, hostile=0.3)
    inputs = finite(P.settings_input(base, settings))
    if rng.random() < 0.25 and inputs:
        k = rng.choice(list(inputs))
        nm = G.nearmiss(rng, types[k], allow_none=False)
        if nm is not None:
            inputs[k] = finite(nm[0])
    if not inputs:
        return
    text = respell_numbers(json.dumps(P.nest(inputs), ensure_ascii=rng.random() < 0.5), rng)
    has_dollar = "${" in text
    outs = {}
    for mode in ("yaml", "json", "jsonnet", "omegaconf"):
        if mode == "omegaconf" and has_dollar:
            continue
        spec = dict(base, mode=mode)
        ob = call(P.build, spec)
        if not ob.accepted:
            ctx.observe("mode-parser-build-failed", f"{mode}: {ob.brief()}")
            continue
        outs[mode] = call(ob.value.parse_string, text)
        path = os.path.join(ctx.workdir, f"m{i % 30}.json")
        with open(path, "w", encoding="utf-8") as f:
            f.write(text)
        outs[mode + ".cfg_file"] = call(ob.value.parse_args, ["--cfg", path])
    ctx.evaluation(("c05m", tuple(sorted(t.skel for t in types.values())), tuple(sorted(outs))))
    ref = outs.get("yaml")
    if ref is None:
        return
    dests = c01.cfg_dests(base)
    for name, o in outs.items():
        if name == "yaml":
            continue
        ctx.count("mon.mode_pairs_compared")
        ctx.count(f"mon.mode.{name.split('.')[0]}")
        if not (o.accepted or o.rejected) or not (ref.accepted or ref.rejected):
            ctx.observe("escape (C03)", o.brief())
            continue
        cls = "+".join(sorted({classify_string(x) for x in _strings(inputs)} - {"plain"})) or "no-hostile-string"
        if any(ch in text for ch in "\x85\u2028\u2029\ufeff"):
            cls = "unicode-break"
        if "\\ud8" in text or "\\ud9" in text or "\\uda" in text or "\\udb" in text:
            cls = "nonbmp-escape"
        if o.accepted != ref.accepted:
            ctx.violation("modes", f"decision-differs/{name.split('.')[0]}-vs-yaml/{cls}", dict(mode=name, text=short(text, 600), yaml=ref.brief(), other=o.brief()))
            return
        if o.accepted:
            d = same_steps(strip_prov(ref.value, dests), strip_prov(o.value, dests))
            if d:
                vcls = differing_value_class(strip_prov(ref.value, dests), d[0])
                if cls == "unicode-break" and vcls.startswith("str:"):
                    vcls = "str:unicode-break"
                ctx.violation("modes", f"value-differs/{name.split('.')[0]}-vs-yaml/{diff_class((steps_str(d[0]), d[1]))}/{vcls}", dict(mode=name, at=steps_str(d[0]), why=d[1], text=short(text, 600)))
                return


def differing_value_class(cfg, steps):
    cur = cfg
    try:
        for kind, k in steps:
            if kind == "set":
                break
            cur = cur[str(k)] if isinstance(cur, Namespace) else cur[k]
    except Exception:
        return "?"
    vals = list(cur) if isinstance(cur, (set, frozenset, list, tuple)) else [cur]
    out = set()
    for v in vals:
        if isinstance(v, bool):
            out.add("bool")
        elif isinstance(v, int):
            out.add("bigint" if abs(v) > 2**53 else "int")
        elif isinstance(v, float):
            out.add("integral-float" if v == v and abs(v) != float("inf") and v == int(v) else "float")
        elif isinstance(v, str):
            out.add("str:" + classify_string(v))
        elif type(v).__name__ == "Decimal" and abs(v) > 2**53:
            out.add("bigint")
        else:
            out.add(type(v).__name__)
    if "bigint" in out:
        return "bigint"
    return "+".join(sorted(out))


def case_class_defaults(ctx, i, rng):
    """class-typed arguments that have a default spec, given partial settings (only init_args, only dict_kwargs, the same
    class again): every channel completes them from the default in the same way"""
    from jsonargparse import lazy_instance

    wdk = "vf.fixtures.zoo.WithDictKwargs"
    spec = dict(
        args=[
            dict(name="m", t=G.CLASS_T, default={"class_path": wdk, "init_args": {"a": rng.randrange(9)}, "dict_kwargs": {"d0": 0}}, required=False),
            dict(name=rng.choice(["n", "grp.n"]), t=G.CLASS_T, default=lazy_instance(zoo.SubA, a=5), required=False),
            dict(name="k", t=G.INT, default=1, required=False),
        ],
        cfg=True, mode="yaml", env=False, prog="app", sub=None,
    )
    o = call(P.build, spec, env_prefix="APP")
    if not o.accepted:
        ctx.inconclusive(f"class-defaults parser not built: {o.brief()}")
        return
    p = o.value
    nname = spec["args"][1]["name"]
    inputs = {}
    r = rng.random()
    if r < 0.7:
        inputs["m"] = rng.choice([{"class_path": wdk, "dict_kwargs": {"z": 1}}, {"dict_kwargs": {"z": 2}}, {"init_args": {"a": 3}}, {"class_path": wdk, "init_args": {"a": 4}}])
    if r > 0.3:
        inputs[nname] = rng.choice([{"init_args": {"b": "q"}}, {"init_args": {"a": 7}}, {"class_path": "vf.fixtures.zoo.SubA", "init_args": {"b": "w"}}])
    types = P.arg_types(spec)
    outs = run_channels(ctx, spec, p, inputs, ctx.workdir, i, (), types=None)
    ctx.evaluation(("c05-class-defaults", tuple(sorted((k, tuple(sorted(v))) for k, v in inputs.items()))))
    ctx.count("st.partial_class_settings_over_default_spec")
    compare(ctx, spec, outs, inputs, types, "channels")


def case_class_group(ctx, i, rng):
    """a class group whose class-typed parameter has a default spec: another class for it, given through every channel
    including the whole-group option on argv and the whole-group environment variable"""
    from jsonargparse import ActionConfigFile, ArgumentParser

    def build():
        p = ArgumentParser(exit_on_error=False, env_prefix="APP", default_env=False)
        p.add_argument("--cfg", action=ActionConfigFile)
        p.add_class_arguments(zoo.HolderLazy, "trainer")
        return p

    cls, ia = rng.choice([("SubB", {"c": 0.25}), ("SubList", {"items": [1]}), ("SubA", {"b": "other"}), ("Base", {"a": 9})])
    child = {"class_path": f"vf.fixtures.zoo.{cls}", "init_args": ia}
    grp = {"child": child}
    if rng.random() < 0.5:
        grp["n"] = 3
    doc = {"trainer": grp}
    text = json.dumps(doc)
    outs = {
        "object.nested": call(build().parse_object, copy.deepcopy(doc)),
        "string.nested": call(build().parse_string, text),
        "argv.cfg_string": call(build().parse_args, [f"--cfg={text}"]),
        "argv.dotted": call(build().parse_args, [f"--trainer.child={child['class_path']}"] + [f"--trainer.child.{k}={P.argv_text(v)}" for k, v in ia.items()] + ([f"--trainer.n={grp['n']}"] if "n" in grp else [])),
        "argv.group_option": call(build().parse_args, [f"--trainer={json.dumps(grp)}"]),
        "env.group_variable": call(build().parse_env, {"APP_TRAINER": json.dumps(grp)}),
    }
    ctx.evaluation(("c05-class-group", cls, "n" in grp))
    ctx.count("st.class_group_with_default_spec")
    ref = outs["object.nested"]
    for name, o in outs.items():
        if name == "object.nested":
            continue
        ctx.count("mon.channel_pairs_compared")
        if o.accepted != ref.accepted:
            ctx.violation("channels", f"decision-differs/{name}-vs-object/class-group", dict(settings=doc, object_outcome=ref.brief(), channel_outcome=o.brief()))
            return
        if o.accepted:
            d = same_steps(strip_prov(ref.value, {"cfg"}), strip_prov(o.value, {"cfg"}))
            if d:
                ctx.violation("channels", f"value-differs/{name}-vs-object/class-group", dict(settings=doc, at=steps_str(d[0]), why=d[1], object_result=short(ref.value, 400), channel_result=short(o.value, 400)))
                return


def case_once_only(ctx, i, rng):
    """values that an earlier, more lenient Union member would convert again if it saw the already converted result
    (a range read as a sequence, a UUID read as an int): every channel converts exactly once"""
    reg = {t.extra: t for t in G.REGISTERED}
    choices = [
        (G.union_t([G.list_t(G.INT, "Sequence"), reg["range"]]), "range(5, 0, -1)"),
        (G.union_t([G.RESTRICTED_NUM[1], reg["UUID"]]), "ed2d62d9-50ea-95fe-f035-5fbb22c01615"),
        (G.list_t(G.union_t([G.RESTRICTED_NUM[0], reg["UUID"]])), [3, "ed2d62d9-50ea-95fe-f035-5fbb22c01615"]),
        (G.union_t([G.list_t(G.STR), reg["range"]]), "range(2)"),
    ]
    picked = rng.sample(choices, 2)
    spec = dict(args=[dict(name=n, t=t, default=P.MISSING, required=False) for n, (t, _) in zip(["u1", "grp.u2"], picked)], cfg=True, mode="yaml", env=False, prog="app", sub=None)
    o = call(P.build, spec, env_prefix="APP")
    if not o.accepted:
        ctx.inconclusive(f"once-only parser not built: {o.brief()}")
        return
    inputs = {n: copy.deepcopy(v) for n, (_, v) in zip(["u1", "grp.u2"], picked)}
    types = P.arg_types(spec)
    outs = run_channels(ctx, spec, o.value, inputs, ctx.workdir, i, (), types=None)
    ctx.evaluation(("c05-once-only", tuple(t.skel for t, _ in picked)))
    ctx.count("st.values_a_lenient_member_would_convert_again")
    compare(ctx, spec, outs, inputs, types, "channels")


def run_shard(ctx):
    for k in list(os.environ):
        if k.startswith("APP_"):
            del os.environ[k]
    for i, rng in ctx.cases():
        if i % 3 == 2:
            case_modes(ctx, i, rng)
        elif i % 12 == 1:
            case_class_defaults(ctx, i, rng)
        elif i % 24 == 4:
            case_once_only(ctx, i, rng)
        elif i % 24 == 10:
            case_class_group(ctx, i, rng)
        else:
            case_channels(ctx, i, rng)
