"""Data-only description of every check (read by the parent process, which never imports the library):
sharding, time budget per shard (seconds of workload generation), adequacy gates (counter -> minimum,
evaluated on the merged counters; a missed gate makes the run INCONCLUSIVE, never 'held'), evidence
level and the rule by which distinct non-trivial cases are counted."""

Q, T = "quick", "thorough"


def g(q, t):
    return {Q: q, T: t}


META = {}
NOT_CLAIMED = {}  # property id -> reason, for properties without a check (kept current in MANIFEST.not_applicable)

META["C11"] = dict(
    title="Namespace behaves as a nested mapping addressed by dotted keys",
    level="exploration",
    level_text="Runtime monitoring of the real Namespace class against an executable nested-dict model: every operation "
    "history up to length 4/5 over a 14-operation alphabet (several alphabets per run) plus thousands of random histories "
    "up to length 40; all observers compared after the steps. Exhaustive within the stated alphabet, sampled beyond it.",
    level_note="Trusted: the reference model's reading of the statement; histories beyond the bounds are not covered. "
    "Known findings (dotted access through dict values, dict in mixed list) are listed in known_findings.json.",
    shards=g(4, 16),
    budget=g(50, 300),
    technique="reference-model monitor (nested dict run in lock-step) + icontract storage invariant on the real Namespace, "
    "over exhaustive short and random long operation histories",
    rule="L1: every operation sequence of length<=4 (quick) / <=5 (thorough) over a seed-rotated alphabet of 14 concrete "
    "operations is executed on a real Namespace and on the nested-dict model, all observers compared after every step "
    "(exhaustive for that alphabet), plus random histories of length<=40 over the full alphabet; L2 dotted-vs-stepwise "
    "addressing through dict values; L3 dict<->Namespace conversions. A case is distinct by its operation sequence "
    "(ops with arguments); non-trivial = at least one state-changing op succeeded.",
    gates={
        "mon.L1.observer_comparisons": g(20000, 200000),
        "mon.L1.histories_exhaustive": g(5000, 50000),
        "mon.L1.histories_random": g(120, 3000),
        "mon.L2.stepwise_vs_dotted": g(200, 2000),
        "mon.L3.conversions": g(200, 2000),
        "mon.invariant.storage": g(20000, 200000),
        "st.clash_key_ops": g(2000, 20000),
    },
    exhaustive_key="l1_exhaustive_complete",
    assumptions=[
        "the reference model (a nested dict with set/del/pop/update rules written from the property statement) is the "
        "meaning of 'what a nested dictionary would hold'",
        "dict-valued leaves are opaque values in L1; only L2 addresses through them",
    ],
)

META["C16"] = dict(
    title="Classes are instantiated in an order compatible with every link",
    level="exploration",
    level_text="Exhaustive runtime check of the real DirectedGraph on every digraph with <=4 nodes incl. self-loops (quick) and "
    "5 nodes without self-loops (thorough), 3 edge-insertion orders each, judged by an independent cycle test and order "
    "validator (icontract postcondition + boundary check); plus generated acyclic link graphs over 2-4 class groups / subclass "
    "arguments through real parsers with recording constructors (order, exactly-once, argument identity, cycle refusal); "
    "30% of the components hold a class-typed parameter of their own, and links may target the parameters of that nested object. Also: a deep-nesting scenario (targets nested two levels, sources nested inside another component, groups and links declared in every order), cycle probes through nested targets and a class group feeding its own nested object.",
    level_note="Trusted: the independent graph oracle (30 lines) and the recording classes. End-to-end link graphs are sampled "
    "(random DAGs, declaration orders, name-prefix collisions, multi-source links, a failing instantiate before the judged one).",
    shards=g(4, 16),
    budget=g(40, 240),
    technique="exhaustive small-graph enumeration against an independent topological-order/cycle oracle (contract on the real "
    "function) + constructor call-log monitor on end-to-end link graphs",
    rule="Part A: a case is a digraph (edge subset) x insertion-order variant, distinct by edge set; all non-empty edge subsets are "
    "enumerated. Part B: a case is (component kinds, DAG, declaration order, link specs), distinct by that tuple; every case "
    "has >=1 link so all are non-trivial.",
    gates={
        "st.e2e.list_of_instances_as_target": g(80, 800), "st.e2e.union_typed_target": g(30, 300),
        "st.e2e.holder_components": g(100, 1000), "st.e2e.links_to_nested_target": g(40, 400),
        "mon.graph.evaluations": g(150000, 2000000),
        "ev.graph.cyclic_reported": g(50000, 500000),
        "ev.graph.ordered": g(1000, 10000),
        "mon.contract.topological_order": g(1000, 10000),
        "mon.e2e.instantiations": g(150, 1500),
        "mon.e2e.edges_checked": g(300, 3000),
        "mon.e2e.cycle_probes": g(100, 1000),
    },
    exhaustive_key="graphs_exhaustive_complete",
    assumptions=[
        "node numbering inside DirectedGraph depends only on edge insertion order (3 orders per graph are tried)",
        "end-to-end link graphs are sampled, not enumerated",
    ],
)

META["C02"] = dict(
    title="Accepted values conform to the declared type; acceptance is compositional",
    level="exploration",
    level_text="Runtime monitoring of the real parser over generated type hints (depth<=3 quick / <=4 thorough): an independent "
    "structural validator judges every accepted result at the API boundary and, through an icontract postcondition on "
    "adapt_typehints, at every nesting level; conforming natives must be accepted, irrecoverable near misses rejected; container "
    "and Union acceptance are compared metamorphically with what the real parser says about the parts, over all member permutations."
    " Also: castable re-spellings of conforming values at one position (numeral strings, integral floats, int for float, bool / numeral-string keys for int keys) where only the conformance of an accepted result is judged; integers no float can hold (2**53+1, 10**400); Unions of sibling containers (same constructor and arity, different leaf types) given in the list form a config file produces; an escaping exception in one member order while another order accepts counts as order dependence.",
    level_note="Trusted: vf.models.conform (structural typing rules) and the generator's notion of a near miss. Sampled, not "
    "exhaustive; string-encoded containers below the top level are outside (c) by design of the loader.",
    shards=g(4, 16),
    budget=g(45, 300),
    technique="independent conformance oracle on results (boundary + icontract postcondition on adapt_typehints) and metamorphic "
    "comparison of container/Union acceptance with element/member acceptance on the real parser",
    rule="basic: (type skeleton) x 3 conforming natives (object + config text) x 3 near misses x 3 look-alike argv strings; "
    "container: (container kind, element type, per-element accept vector, channel); union: (member set, channel, value) over "
    "all (thorough) / 6 (quick) permutations. Distinct = hash of that tuple; non-trivial = the parser reached a decision.",
    gates={
        "st.union.dataclass_next_to_class_containers": g(60, 600),
        "mon.a.castable_respelling": g(500, 5000), "st.union.sibling_containers": g(200, 2000), "st.union.sibling_containers_nested.converting_first_item": g(25, 250),
        "mon.a.boundary_conformance": g(3000, 30000),
        "mon.a.internal_contract": g(10000, 100000),
        "mon.b.conforming_native": g(1000, 10000),
        "mon.b2.nearmiss": g(500, 5000),
        "mon.c.container_vs_elements.object": g(300, 3000),
        "mon.c.container_vs_elements.config": g(200, 2000),
        "mon.d.union_values": g(500, 5000),
        "st.accept.list": g(30, 300), "st.reject.list": g(30, 300),
        "st.accept.dict": g(30, 300), "st.reject.dict": g(30, 300),
        "st.accept.tuple": g(30, 300), "st.reject.tuple": g(30, 300),
        "st.accept.set": g(30, 300), "st.reject.set": g(30, 300),
        "st.accept.union": g(30, 300), "st.reject.union": g(30, 300),
        "st.accept.enum": g(30, 300), "st.reject.enum": g(30, 300),
        "st.accept.literal": g(30, 300), "st.reject.literal": g(30, 300),
        "st.accept.rnum": g(30, 300), "st.reject.rnum": g(30, 300),
        "st.accept.reg": g(30, 300), "st.reject.reg": g(30, 300),
    },
    assumptions=[
        "which Union member's reading of a value wins is order dependent by documentation and is not judged",
        "a None result at a non-Optional position is outside 'every non-null value conforms'",
    ],
)

META["C01"] = dict(
    title="A dumped configuration re-parses to the same configuration",
    level="exploration",
    level_text="Runtime round-trip monitor: generated parsers (type grammar incl. Optional/Union, containers, Literal, Enum, "
    "restricted/registered types, dataclasses, subclass specs, nested groups, subcommands) x accepted configurations rich in "
    "hostile strings x 9 serialisation routes (dump yaml/json/json_indented/skip_default, --print_config [skip_default|comments], "
    "save single/multi-file); the re-parsed configuration is compared value-for-value and type-for-type with the probe's own "
    "copy of the original. A second monitor compares the YAML dumper/loader pair directly on every hostile string."
    " Option-less subcommands are part of the grammar. A variant route (skip_default, comments) is judged only when the plain route round trips for the same configuration. Also: a parse rejected inside its --cfg (other values for the same keys) between the accepted configuration and its round trips; container hints in all supported spellings (typing / collections.abc / builtin aliases, FrozenSet).",
    level_note="Trusted: the comparator and the dynamic Union-ambiguity test (a value whose owner-member serialisation is read "
    "differently by another member is logged, not judged). Any-typed arguments are outside the property's grammar.",
    shards=g(4, 16),
    budget=g(45, 300),
    technique="round-trip differential at the API boundary (dump/print_config/save -> parse) with type-for-type comparator, "
    "plus loader/dumper pair check on hostile scalars",
    rule="a case is (route, multiset of argument type skeletons, source channel, lexical classes of the strings in the "
    "configuration); distinct by hash of that tuple; non-trivial = the source parse was accepted so there is a configuration "
    "to round trip.",
    gates={
        "mon.route.dump.json": g(300, 3000), "st.ordered_dict_given_for_dict_argument": g(15, 150), "st.rejected_parse_between_accept_and_round_trip": g(100, 1000),
        "mon.route.dump.skip_default": g(300, 3000),
        "mon.route.dump.yaml": g(200, 2000),
        "mon.route.print_config": g(100, 1000),
        "mon.route.save.single": g(300, 3000),
        "mon.route.save.multifile": g(200, 2000),
        "mon.loader_dumper_pairs": g(400, 400),
        "st.value_kind.enum": g(30, 300), "st.value_kind.dict": g(30, 300), "st.value_kind.tuple": g(30, 300),
        "st.value_kind.set": g(20, 200), "st.value_kind.reg": g(30, 300), "st.value_kind.union": g(30, 300),
        "st.value_kind.dataclass": g(20, 200), "st.value_kind.class": g(5, 50), "st.value_kind.literal": g(30, 300),
    },
    assumptions=[
        "provenance (meta keys, config-argument destination) is not configuration",
        "untagged Unions: a value is judged only if no other member reads its owner's serialisation differently",
    ],
)

META["C10"] = dict(
    title="Parse results are fixed points: re-parsing or validating changes nothing",
    level="exploration",
    level_text="Idempotence monitor on every accepted result of generated parsers (same grammar as C01) reached through six "
    "channels (parse_object, parse_args, parse_string, parse_path, --cfg file, defaults only): validate(C) must pass, "
    "parse_object(C) must return an equal configuration (type for type), from the original and from another working "
    "directory, and dump(parse_string(dump(C))) must be byte-identical to dump(C) in yaml and json. One case in six uses "
    "class-typed options with prefix-related names (model, model_ema, ...) that all carry defaults with init_args."
    " Also: a sparse class spec (defaults=False) re-parsed after an unrelated parse failed while class defaults were being added; settings for a subcommand other than the one named; dataclass fields that are Optional with a non-null default set to null. Also: a class (needing type-aware serialisation) behind an Enum / path member of a Union, a container of a Union of dataclasses sharing a field name, string values in dict_kwargs, and every string of the hostile pool through dump-parse-dump (yaml, json) once per run.",
    level_note="Trusted: the comparator. The dump-parse-dump clause is judged only when the re-parsed configuration equals C "
    "(otherwise the difference is C01's and is counted, not double-reported).",
    shards=g(4, 16),
    budget=g(45, 300),
    technique="idempotence/fixed-point monitor at the API boundary (validate, parse_object, dump-parse-dump byte comparison)",
    rule="a case is (channel, multiset of argument type skeletons, lexical classes of strings in the result); distinct by hash; "
    "non-trivial = the source parse was accepted.",
    gates={
        "mon.validate": g(2000, 20000),
        "st.union_with_lenient_member_before_class": g(50, 500), "st.union_of_dataclasses_sharing_a_field": g(50, 500),
        "mon.simple_fixed_points": g(80, 800), "st.dict_kwargs_string_values": g(50, 500), "mon.hostile_string_fixed_points": g(150, 150),
        "mon.reparse_object": g(2000, 20000),
        "mon.dump_parse_dump.yaml": g(500, 5000),
        "mon.dump_parse_dump.json": g(500, 5000),
        "ev.parse_args.accepted": g(100, 1000), "ev.parse_object.accepted": g(100, 1000), "ev.parse_string.accepted": g(100, 1000),
        "ev.parse_path.accepted": g(100, 1000), "ev.parse_args_cfg.accepted": g(100, 1000), "ev.defaults_only.accepted": g(100, 1000),
        "st.result_kind.enum": g(50, 500), "st.result_kind.tuple": g(50, 500), "st.result_kind.set": g(30, 300),
        "st.result_kind.reg": g(50, 500), "st.result_kind.dataclass": g(30, 300), "st.result_kind.class": g(10, 100),
        "st.result_kind.dict": g(50, 500), "st.result_kind.union": g(50, 500),
        "st.prefix_named_class_options_with_defaults": g(30, 400),
        "mon.sparse_class_spec_after_failed_parse": g(30, 300),
    },
    assumptions=["provenance keys are not configuration", "SecretStr is masked in dumps by design (C20) and excluded"],
)

META["C20"] = dict(
    title="Restricted and registered scalar types validate exactly, serialise losslessly",
    level="exploration",
    level_text="Runtime monitoring of the real type classes and parsers: restriction sets of 1-3 comparisons over the six "
    "operators (int and float, and/or) with candidates around every bound (incl. integral floats, bools, numeric strings, huge "
    "ints, non-finite floats, junk) judged by an independent predicate evaluation, through the cast T(v), argv and config; "
    "regex types against re.match; every built-in registered type with extreme values round-tripped through dump->parse and "
    "serializer->argv, bare and inside Optional/List/Dict; a secret monitor greps every dump/print_config/save/error/help output. Also: candidates that already are instances of another restricted type (numbers and strings, also through parse_object); creation of every restriction set in both orders with automatic names; the same pattern compiled with a flag as a type of its own.",
    level_note="Trusted: operator/re semantics of CPython as the meaning of the restriction; value lists for registered types "
    "are finite samples (plus random members). Restriction sets are a sharded sample of the 5,000-set space per run.",
    shards=g(4, 16),
    budget=g(40, 240),
    technique="independent predicate oracle on restricted types + round-trip monitor on registered types + output scanner for secrets",
    rule="distinct cases: restriction set (base, comparisons, join); regex; (registered type, value class, value); (secret shape, "
    "token). Evaluations count individual cast / round-trip judgements. Non-trivial: every case reaches a verdict.",
    gates={
        "mon.restriction_sets": g(60, 1500), "mon.restriction_sets_created_in_both_orders": g(200, 1500),
        "mon.restricted_number.cast": g(1000, 30000),
        "mon.restricted_number.parser.argv": g(300, 8000),
        "mon.restricted_number.parser.config": g(300, 8000),
        "st.number.accepted": g(200, 5000), "st.number.rejected": g(200, 5000),
        "st.number.instance_of_other_restricted_type": g(300, 6000), "st.string.instance_of_other_restricted_type": g(20, 60), "mon.restricted_string.flag_variants": g(3, 8),
        "mon.restricted_string.cast": g(100, 300),
        "st.string.accepted": g(30, 60), "st.string.rejected": g(50, 150),
        "mon.registered.config_roundtrip": g(400, 4000),
        "mon.registered.argv_roundtrip": g(100, 1000),
        "mon.secret.outputs_scanned": g(100, 1000),
    },
    assumptions=["numeric strings are judged only on the direct cast (argv/config text is typed by the loader first)"],
)

META["C03"] = dict(
    title="Every parse failure surfaces as ArgumentError or exit status 2, nothing else",
    level="exploration",
    level_text="Boundary monitor on the outcome class of all five parse methods under a grammar fuzzer: argv over known / unknown "
    "/ malformed option names with well- and ill-formed values (broken JSON/YAML, anchors and aliases incl. self-referential, "
    "tags, non-importable and non-class import paths, wrong-typed class_path/init_args, missing files, directories), hostile "
    "config texts, environment mappings and Python objects, over five parser shapes (flat+groups, class/dataclass arguments, "
    "nested subcommands, links, positionals) in both exit_on_error modes. Termination is judged on a logical step budget "
    "(4e6 Python function entries per call, counted with sys.monitoring), not on wall-clock time."
    " A sixth shape has an existing default config file and a required option; for half of the cases the same input is run under the opposite exit_on_error mode and the decisions must agree (what fails in one mode cannot print a config and exit 0 in the other). Values are partly aimed at the option's type (out-of-range numbers for numeric / restricted / registered types, scalars and mappings for list-valued options, nargs with choices); --cfg values include null or unknown subcommand sections and the config option's own key. Also: Callable[[int], Class] arguments (plain and in a List) with their sub-keys, a Union[dict, Class] argument, and crafted sequences that give one class-typed option several times on one command line (class, sub-options, another class).",
    level_note="Trusted: the classification of documented outcomes (Namespace, ArgumentError, exit 2 with usage+error, exit 0 for "
    "help/print_config). Sampled inputs; a wall-clock watchdog firing is INCONCLUSIVE.",
    shards=g(4, 16),
    budget=g(45, 300),
    technique="outcome-class monitor at the API boundary under grammar fuzzing, with a sys.monitoring step budget as termination oracle",
    rule="a case is (parser shape, exit_on_error, method, tuple of token/value classes); distinct by hash; every case is non-trivial "
    "(a call was made and classified).",
    gates={
        "mon.print_config_of_accepted_argv": g(15, 150),
        "mon.exit_on_error_modes_compared": g(2000, 20000), "st.shape.dcf": g(500, 5000),
        "mon.outcome_class": g(4000, 60000),
        "st.accepted": g(300, 4000),
        "st.rejected": g(1500, 20000),
        "st.exit_on_error.True": g(1000, 15000),
        "st.exit_on_error.False": g(1000, 15000),
        "ev.parse_args.ArgumentError": g(500, 5000),
        "ev.parse_args.exit2": g(300, 3000),
        "ev.parse_string.ArgumentError": g(50, 500),
        "ev.parse_object.ArgumentError": g(50, 500),
        "ev.parse_path.ArgumentError": g(20, 200),
        "ev.parse_env.ArgumentError": g(20, 200),
        "st.shape.classes": g(500, 5000), "st.shape.sub": g(500, 5000), "st.shape.links": g(500, 5000),
    },
    assumptions=[
        "only documented keyword arguments are passed; stdin is /dev/null",
        "objects handed to parse_object may be arbitrary Python values (the statement says 'whatever the input')",
    ],
)

META["C04"] = dict(
    title="Sources override each other in the documented order, left to right",
    level="exploration",
    level_text="Reference-model monitor: a ten-line left fold over the sources (defaults, 0-3 default config files incl. glob "
    "patterns whose sorted order differs from creation order and missing files, env config, env variables, 0-6 argv items that "
    "are options / '+' appends / dict items / config files / config strings) predicts the final value of 9 keys (flat, nested, "
    "list-typed, dict-typed); compared key by key with what the real parser returns, for parse_args, parse_env, parse_string, "
    "parse_object and parse_path, with default_env off / on / env=True / JSONARGPARSE_DEFAULT_ENV. Values carry the index of the "
    "source that wrote them."
    " Further keys: an option spelled with a hyphen, a Sequence with a tuple default, a list of lists, a Mapping with a MappingProxyType default, a Dict with an OrderedDict default; a default config file matched by a pattern and listed again after it; a second call on the same parser (same sources, or only the standing sources); parse_path of a config in another directory than the process. Default config files come with decoys that must not disturb the others: a directory matched by the pattern, a file holding only comments. Also: the scalar member of a Union[int, List[int]] key incl. falsy values followed by appends; the same parse_string / parse_object / parse_path call with defaults=False on parsers that read the environment.",
    level_note="Trusted: vf.models.fold (the statement rewritten as code). Sampled scenarios; only unambiguous values "
    "(ints, bools, words, int lists, str->int dicts).",
    shards=g(4, 16),
    budget=g(40, 240),
    technique="reference-model (left fold) monitor over generated multi-source scenarios with source-tagged values",
    rule="a case is (method, env mode, sequence of source kinds with the (key, assignment kind) pairs each writes); distinct by hash; "
    "non-trivial = at least one source besides the declared defaults.",
    gates={
        "mon.fold_comparisons": g(1500, 20000),
        "mon.fold_comparisons_repeated_parse": g(500, 6000),
        "st.source.scalar_member_of_union_with_list.falsy": g(150, 1500), "mon.fold_comparisons_without_defaults": g(60, 600),
        "st.source.directory_matched_by_default_pattern": g(30, 300), "st.source.comment_only_default_file": g(80, 800),
        "st.source.default_file": g(400, 4000), "st.source.env_config": g(100, 1000), "st.source.env_var": g(150, 1500),
        "st.source.argv_plain": g(400, 4000), "st.source.argv_append": g(100, 1000), "st.source.argv_dictitem": g(100, 1000),
        "st.source.argv_cfg_file": g(100, 1000), "st.source.argv_cfg_string": g(100, 1000),
        "st.source.parse_string": g(50, 500), "st.source.parse_object": g(50, 500), "st.source.parse_path": g(50, 500),
        "st.pair.default>env": g(50, 500), "st.pair.env>argv": g(50, 500), "st.pair.default>argv": g(100, 1000), "st.pair.argv>argv": g(300, 3000),
    },
    assumptions=["dict items (key.item) are given on the command line only; config documents hold plain and '+' assignments"],
)

META["C05"] = dict(
    title="The same settings give the same configuration through every input channel",
    level="exploration",
    level_text="N-version comparator at the API boundary: one logical set of settings (generated parser over the type grammar, "
    "conforming values with hostile strings at str positions, or one near-miss value) is rendered for 11 channels - parse_object "
    "(nested dict, dotted dict, Namespace), parse_string (nested, dotted), parse_path, --cfg file, --cfg string, argv options "
    "(= and space form) and environment variables (names built by an independent implementation of the documented rule); all "
    "must agree on accept/reject and on the resulting configuration, type for type. The same JSON document is parsed under "
    "parser_mode yaml/json/jsonnet/omegaconf (parse_string and --cfg file) and compared."
    " A twelfth channel spells structured values option by option on argv (--k=<class> --k.init_args.x=v, --k.field=v, --k={} --k.key=v); a dedicated scenario gives partial class settings (only init_args, only dict_kwargs, the same class again) for arguments that have a default spec.",
    level_note="Trusted: the rendering rules (top-level strings raw on argv/env, everything else JSON) and the dynamic test that "
    "excludes settings without an unambiguous text form (non-string scalar at a Union position with a string-taking member; Any).",
    shards=g(4, 16),
    budget=g(45, 300),
    technique="N-version differential across input channels and parser modes with a type-for-type comparator",
    rule="channels: a case is (multiset of argument type skeletons, valid | near-miss class, set of channels run); modes: "
    "(type skeletons, modes run). Distinct by hash; non-trivial = at least two channels reached a decision.",
    gates={
        "st.values_a_lenient_member_would_convert_again": g(15, 150),
        "st.partial_class_settings_over_default_spec": g(30, 300),
        "st.argv_subkey_spelling": g(100, 1000),
        "mon.channel_pairs_compared": g(4000, 40000),
        "mon.pair.argv.options_eq": g(300, 3000), "mon.pair.env": g(300, 3000), "mon.pair.argv.cfg_file": g(400, 4000),
        "mon.pair.argv.cfg_string": g(400, 4000), "mon.pair.path": g(400, 4000), "mon.pair.string.dotted": g(400, 4000),
        "mon.pair.object.dotted": g(400, 4000), "mon.pair.object.namespace": g(400, 4000),
        "mon.pair_both_accepted": g(2000, 20000), "mon.pair_both_rejected": g(500, 5000),
        "mon.mode.json": g(150, 1500), "mon.mode.jsonnet": g(150, 1500), "mon.mode.omegaconf": g(100, 1000),
        "st.settings.nearmiss": g(100, 1000),
    },
    assumptions=["strings containing ${ are excluded from the omegaconf comparison (interpolation is that mode's purpose)"],
)

META["C06"] = dict(
    title="Unknown keys are never silently ignored; required keys are enforced",
    level="exploration",
    level_text="Mutation monitor over generated parsers (random subsets of: dotted groups, dataclass / Optional[dataclass] / "
    "List[dataclass] arguments, class arguments incl. nested, List and Dict of classes, class groups, inner parsers, two levels of "
    "subcommands; seven kinds of required keys): starting from a configuration that every channel accepts, one foreign key (unique "
    "token, prefixes of defined names, '+'-suffixed names; scalar, empty mapping, mapping or null value) is inserted at every node "
    "where the parser defines the keys, or one required key is removed / nulled; object, config string, --cfg string, --cfg file, "
    "parse_path and argv must reject, the error must contain the foreign key; leftover argv and parse_known_args are probed."
    " Required-key mutations are also parsed with defaults=False (object and text), including a subcommand whose only setting is the required option and a required option of a second-level subcommand. Keys below dict_kwargs of a class whose __init__ has no **kwargs count as foreign keys. Also: the section holding a required option of a (nested) subcommand given but empty with defaults=False through object, text and argv.",
    level_note="Trusted: the hand-written templates' list of nodes at which keys are defined by the parser (never under Dict-typed "
    "values, Any or dict_kwargs). A case whose valid configuration is not accepted by all channels is skipped and counted.",
    shards=g(4, 16),
    budget=g(45, 300),
    technique="mutation (insert foreign key / drop required key) monitor with accept/reject and error-message oracle across channels",
    rule="a case is (mutation kind, node kind, channel, value class, token class, feature set); distinct by hash; non-trivial = the "
    "unmutated configuration was accepted by every channel first.",
    gates={
        "mon.valid_baseline_accepted": g(20, 150),
        "mon.foreign_key_insertions": g(1500, 30000),
        "mon.required_key_mutations": g(300, 6000),
        "st.node.top": g(30, 300), "st.node.group": g(30, 300), "st.node.dataclass": g(30, 300), "st.node.dataclass-nested": g(30, 300),
        "st.node.dataclass-in-list": g(30, 300), "st.node.init_args": g(30, 300), "st.node.init_args-nested": g(30, 300),
        "st.node.init_args-in-list": g(30, 300), "st.node.class-group": g(30, 300), "st.node.inner-parser": g(30, 300),
        "st.node.subcommand-section": g(30, 300), "st.node.subcommand-section-level2": g(5, 100),
        "st.node.dict_kwargs-of-class-without-var-keyword": g(10, 100),
        "st.required.required-option": g(30, 300), "st.required.required-subcommand": g(30, 300),
        "st.required.required-param-of-selected-class": g(30, 300), "st.required.required-dataclass-field": g(30, 300),
        "st.required.required-option-of-subcommand": g(20, 200), "st.required.required-option-of-subcommand-level2": g(10, 100),
        "st.channel.argv": g(25, 400),
        "st.required.section-emptied": g(10, 100), "mon.parse_known_args_refused": g(20, 150),
    },
    assumptions=["a foreign key beside class_path/init_args (spec level) is not among the levels the statement lists and is not inserted"],
)

META["C12"] = dict(
    title="auto_cli calls the component with exactly the parsed values",
    level="exploration",
    level_text="Call-log monitor over generated programs written to real source files: functions, async functions, lists and "
    "nested dicts of functions, classes with 1-3 methods (plain, static, class methods, property). Signatures have 1-6 "
    "parameters (positional-or-keyword / keyword-only, with / without default, Optional without default, 16 annotations). "
    "Values arrive as positionals, options (= and space form) and --config file/string. Every body records its bound arguments "
    "and returns a unique token; the monitor checks exactly-once calls, constructor/method separation, each binding "
    "(given value converted to the declared type, else the signature default; type for type) and the return value; omitting a "
    "required parameter must fail."
    " Also: classes nested in a list / dict of components (methods become subcommands of a subcommand); configs holding settings for several methods; two parent-level --config arguments each holding a part of the chosen subcommand's section; parameters typed as a Union of sequence types. Also: factory-made functions sharing module and qualified name with different signatures called in turn; a method with its own parameter named 'config'; Optional[Union[...]] parameters without default.",
    level_note="Trusted: the generator's own record of which value was given for which parameter. Sampled programs.",
    shards=g(4, 16),
    budget=g(40, 240),
    technique="call-log monitor (exactly-once, argument binding, return value) on generated programs driven through auto_cli",
    rule="a case is (component kind, selected component, tuple of (annotation, has default, keyword-only) of its parameters, "
    "as_positional, config used); distinct by hash; non-trivial = the invocation reached the component or was rejected.",
    gates={
        "mon.invocations": g(1500, 15000),
        "mon.required_omitted": g(100, 1000), "mon.same_named_functions": g(300, 3000), "mon.method_parameter_named_config": g(150, 1500), "mon.cli_after_failed_cli": g(100, 1000),
        "st.kind.function": g(200, 2000), "st.kind.class": g(200, 2000), "st.kind.functions_list": g(100, 1000),
        "st.kind.functions_dict": g(30, 300), "st.kind.async_function": g(50, 500),
        "st.kind.class_in_list": g(100, 1000), "st.kind.class_in_dict": g(100, 1000),
        "st.config_with_settings_for_several_methods": g(60, 600), "st.nested_class_config_for_chosen_and_other_methods": g(8, 80),
        "st.param.poskw.required": g(100, 1000), "st.param.poskw.default": g(300, 3000), "st.param.kwonly.default": g(100, 1000),
        "st.param.kwonly.required": g(30, 300), "st.param.poskw.optional-nodefault": g(20, 200),
    },
    assumptions=["a parameter named 'config' is not generated (auto_cli reserves that option name)"],
)

META["C09"] = dict(
    title="A parser's answers do not depend on what it was asked before",
    level="exploration",
    level_text="History differential: operation histories (length<=6 quick / <=12 thorough) over parse_args (valid, failing, "
    "--help, --print_config[=flags], --<class>.help), parse_object / parse_string (with and without defaults), parse_env, "
    "get_defaults, dump, validate, instantiate_classes, parse_args(namespace=...) and operations on another parser of the same "
    "process, on parsers with config arguments, subclass arguments with lazy defaults (one name a prefix of another), "
    "Optional classes, dataclasses, class groups, links, subcommands and default config files, in both exit_on_error modes; "
    "every step's outcome on the long-lived parser is compared with the same step on a freshly built identical parser. One history in seven is dedicated: a help / print step, then only steps that read what the parser knows. Also dedicated histories: '--print_config followed by a print-and-exit option, then ordinary parses'; a Union[Class, Callable[[int], Class]] parameter given factory-only / object-only values in turn; an instantiate_classes call that fails after links applied on instantiation, then further instantiate_classes calls.",
    level_note="All sides run the same code, so wording changes cannot alarm. State kept outside the parser (context variables, "
    "module globals, caches) would influence a fresh parser of the same process just as much, so every step is also compared "
    "with its outcome in a process without any history: a reference server forked before the shard's first parse forks one child "
    "per distinct (variant, exit_on_error, step) which runs the step on a never-used parser. Inputs for dump/validate/instantiate "
    "come from a fresh parser so all sides get equal arguments.",
    shards=g(8, 16),
    budget=g(55, 300),
    technique="step-by-step differential of a reused parser against freshly built identical parsers and against a forked history-free process, over generated operation histories",
    rule="a case is (parser variant, exit_on_error, the operation history); distinct by hash; non-trivial = history of >=2 steps.",
    gates={
        "mon.steps_compared": g(1200, 20000),
        "mon.steps_compared_with_pristine_process": g(1200, 20000),
        "st.failing_steps": g(400, 5000), "st.history.failed_instantiate_then_instantiate": g(5, 50), "st.history.print_config_with_exit0_option_then_parses": g(8, 80), "st.history.union_of_class_and_factory": g(6, 60),
        "st.history.help_then_readers.default_config_file": g(20, 200),
        "st.op.parse_args": g(300, 3000), "st.op.parse_args-fail": g(150, 2000), "st.op.print_config": g(30, 300), "st.op.print_config-fail": g(12, 200),
        "st.op.help": g(30, 300), "st.op.parse_object": g(50, 500), "st.op.parse_string": g(30, 300), "st.op.parse_env": g(20, 300),
        "st.op.get_defaults": g(30, 300), "st.op.dump": g(30, 300), "st.op.validate": g(12, 200), "st.op.instantiate": g(20, 200),
        "st.op.other_parser-fail": g(10, 100),
        "st.pair.parse_args>parse_object": g(10, 100), "st.pair.parse_args>parse_string": g(10, 100), "st.pair.print_config>parse_args": g(10, 100),
    },
    assumptions=["histories that deliberately mutate the parser (add_argument, set_defaults, link_arguments) are not generated"],
)

META["C14"] = dict(
    title="A class_path is checked against the declared type and built from its config",
    level="exploration",
    level_text="Ground-truth + call-log monitor on a class family written to a real source file (base, subclasses adding / "
    "overriding parameters, subclass behind a private intermediate, **kwargs forwarding, required parameter, unresolved **kw, "
    "abstract base + concrete, unrelated class, holder with nested / List / Dict / Union class parameters, factory functions): "
    "specs of 10 kinds (valid, wrong class, non-class imports, callable returning subclass, unknown / ill-typed / sibling's / "
    "missing required init_args, non-str class_path) through object, argv and config text against Base, Optional[Base] and "
    "Union[Base,int]; instantiate_classes judged by the constructor log (exact type, once, configured init_args + dict_kwargs, "
    "children first and as objects); six short notations compared with the explicit form; class changes between sources."
    " Two-source scenarios: a class chosen by an earlier --cfg, then a later --cfg giving only init_args for that position (plain option, several entries of a Dict[str, Base], a class group inside a subcommand), compared with the same later source written with its class_path. After a class change, parameters that no source touched must carry the defaults of the finally chosen class."
    " Also: dict_kwargs given by dotted sub-options before / between / after other sub-options of the same (plain or nested) class argument, with the class optionally named again, compared with the explicit spec and with the constructor log; subclasses that come into existence (module written and imported) after earlier name-only lookups, given by bare name and by import path.",
    level_note="Trusted: issubclass / inspect.signature of the generated family as ground truth; one family, randomised specs.",
    shards=g(4, 16),
    budget=g(40, 240),
    technique="ground-truth accept/reject oracle + constructor call-log monitor + short-vs-explicit differential on generated class families",
    rule="a case is (spec kind, declared hint, channel) / (short form, class, init_args names) / (nested shape) / (class-change argv); "
    "distinct by hash; all are non-trivial (a decision or an instantiation is judged).",
    gates={
        "mon.class_change_untouched_parameter_has_own_default": g(100, 1000),
        "mon.dict_kwargs_dotted_forms": g(150, 1500), "mon.subclass_defined_after_first_name_lookup": g(20, 200),
        "mon.two_source_short_forms": g(300, 3000), "st.two_sources.dict-entry": g(80, 800), "st.two_sources.subcommand-class-group": g(40, 400),
        "mon.spec_decisions": g(3000, 30000), "mon.instantiations": g(500, 5000), "mon.short_vs_explicit": g(2000, 20000),
        "mon.nested": g(300, 3000), "mon.class_change": g(300, 3000),
        "st.spec.valid-explicit.accepted": g(200, 2000), "st.spec.wrong-class.rejected": g(200, 2000), "st.spec.non-class-import.rejected": g(200, 2000),
        "st.spec.unknown-init-arg.rejected": g(100, 1000), "st.spec.ill-typed-init-arg.rejected": g(200, 2000),
        "st.spec.callable-returning-subclass.accepted": g(200, 2000), "st.spec.required-init-arg-missing.rejected": g(200, 2000),
    },
    assumptions=["SubB deliberately records twice (Base.__init__ via super): constructions are counted by distinct object identity"],
)

META["C15"] = dict(
    title="A linked argument always equals the function of its sources",
    level="exploration",
    level_text="Invariant monitor on every successful parse: parsers with random subsets of links applied on parse (identity and "
    "compute_fn, multi-source, group-valued source into a Dict target and into a function taking a dict, init_args of a class "
    "argument incl. classes lacking the parameter, items of a list of classes incl. heterogeneous lists, a class init_arg as "
    "source incl. None, required target) and links inside a subcommand's parser (with and without links in the parent); source "
    "values arrive from argv, --cfg, object, config string, environment and defaults; a value for the target itself is supplied "
    "through config/object/class spec in half of the cases. After each parse the target is recomputed from the final sources "
    "with the generator's own copy of the function; dumps are inspected for the target and re-parsed. Links inside a subcommand's parser are also driven with the subcommand named through the environment. Also: group sources into untyped / Any targets that already hold a mapping; the result edited in place and parsed again with value-sensitive compute functions over group and list sources; a chain declared through a group source (must be refused or still give final-value targets).",
    level_note="Trusted: the generator's copies of the compute functions and the YAML reader used to inspect dumps.",
    shards=g(4, 16),
    budget=g(40, 240),
    technique="invariant monitor (target == f(final sources)) on results of every channel + dump inspection and re-parse",
    rule="a case is (set of link features, channel, which target got a user value, keys given by config, options given on argv); "
    "distinct by hash; non-trivial = the parser has at least one link and the parse succeeded.",
    gates={
        "mon.link_invariant": g(2000, 20000), "mon.dump_checked": g(500, 5000), "st.chain_through_group_source.refused": g(60, 600), "mon.reparse_after_editing_sources_in_the_result": g(150, 1500), "st.group_source_into_untyped_target": g(600, 6000), "st.mapping_supplied_for_untyped_target_of_group_link": g(150, 1500),
        "mon.target_option_rejected": g(300, 3000),
        "st.target.plain": g(500, 5000), "st.target.init_arg": g(200, 2000), "st.target.list-items": g(200, 2000),
        "st.target.plain-from-class-init-arg": g(150, 1500), "st.target_value_supplied": g(200, 2000), "st.subcommand_links": g(200, 2000),
        "ev.env.return": g(50, 500), "ev.object.return": g(100, 1000), "ev.string.return": g(100, 1000), "ev.argv+cfg.return": g(100, 1000),
    },
    assumptions=["a link whose selected class does not define the target parameter is documented to be ignored"],
)

META["C17"] = dict(
    title="Exactly one subcommand is selected and only its settings survive",
    level="exploration",
    level_text="Reference-model monitor over generated subcommand trees (depth 1-3, 1-4 subcommands per level, required / optional, "
    "options at every level, config arguments and default config files at any level, default_env on): inputs select, omit, or give "
    "settings for one or several subcommands through argv, --cfg string / file, object, config string and environment, "
    "including argv and config naming different subcommands. The model computes the expected choice at every level and the "
    "complete expected tree (defaults < default config file < environment < config < command line); the real result must "
    "equal it exactly (no other sections), or the parse must fail when a required subcommand is undeterminable."
    " Subcommand names include names of Namespace methods (get, items, pop). Default config files at any level may also carry "
    "sections for (several of) that level's subcommands without naming one: they count as given settings for the selection rule and "
    "sit between the subcommand's defaults and its environment values. Also: env=False given to the call on a default_env parser; the document given as the environment's config (APP_CFG), incl. a crafted case where the environment names the subcommand at two levels and its config sets the inner section.",
    level_note="Trusted: the model's reading of the selection rule and of the environment variable names (PREFIX_SUB__OPT, "
    "PREFIX_SUB__SUBCOMMAND). Environment-given settings are always accompanied by a named choice.",
    shards=g(4, 16),
    budget=g(40, 240),
    technique="reference-model monitor (selection rule + per-level precedence fold) over generated subcommand trees and inputs",
    rule="a case is (depth, channel, selection rule branch at the top level, tree shape, config document, argv selection); distinct "
    "by hash; non-trivial = the tree has at least one level of subcommands (always).",
    gates={
        "mon.tree_comparisons": g(2000, 20000),
        "st.rule.argv-named": g(300, 3000), "st.rule.config-named": g(100, 1000), "st.rule.env-named": g(50, 500),
        "st.env.on": g(500, 5000), "st.env.off-with-decoys": g(500, 5000), "st.env.default-on-but-call-says-env=False": g(250, 2500), "st.channel.argv+envcfg": g(100, 1000), "st.env_names_two_levels_and_env_config_sets_the_inner_section": g(30, 300),
        "st.rule.first-with-settings": g(50, 500), "st.rule.first-with-settings-of-several": g(30, 300),
        "st.rule.undeterminable-required": g(50, 500), "st.rule.undeterminable-optional": g(30, 300),
        "st.rule.argv-named+config-disagrees": g(30, 300),
        "st.depth.2": g(300, 3000), "st.depth.3": g(150, 1500),
        "st.channel.object": g(200, 2000), "st.channel.argv+cfgfile": g(200, 2000),
        "st.default_config_sections_for_subcommands": g(500, 5000), "st.null_section_of_other_subcommand": g(100, 1000),
    },
    assumptions=["the multiple-settings warning is not judged"],
)

META["C18"] = dict(
    title="save never destroys data: all-or-nothing on failure, no silent overwrite",
    level="fault_enumeration",
    level_text="Fault enumeration on the real save(): scenarios (config loaded from a main file referring to dataclass, JSON "
    "dataclass, class-spec and inner-parser sub-files, optionally in a sub-directory) x {single-file, multi-file} x overwrite "
    "on/off x pre-existing target / sub-files / unrelated files with known content. For each scenario a fault-free save and "
    "one save per fault position: an invalid value at each of 7 keys (top level, dataclass, JSON sub-file, inner parser, class "
    "init_args), a value of a user-registered type whose serializer raises (top level and inside the inner parser), and an "
    "injected OSError at the 1st..4th write-open. Oracle: SHA-256 directory snapshots before/after and the audit log of "
    "write-opens; successful saves are parsed back and compared."
    " After the fault loop: a multi-file save that fails after its sub-files were collected, followed by a successful multi-file save into another directory; the directory of the failed save must stay untouched. A value the file encoding cannot write is one of the serialisation faults; in single-file mode the target is also spelled as an fsspec path (local://). Also: saving back into the source directory after sub-file values changed; sub-configs loaded from files of the same name in different directories; save_path_content into the file's own directory and elsewhere.",
    level_note="Trusted: snapshot comparison; injected OSError runs are judged only against 'no existing file modified unless "
    "overwrite is requested'. Read-only directories are not exercised (checks run as root). Quick samples 5 fault positions per scenario.",
    shards=g(4, 16),
    budget=g(40, 240),
    technique="fault enumeration (invalid value per key, failing serializer, OSError at the k-th write-open) with directory snapshot oracle",
    rule="a case is (fault kind, fault position, sub-file features, multifile, overwrite, set of pre-existing files); distinct by "
    "hash; non-trivial = save was called on an accepted configuration.",
    gates={
        "mon.save_into_source_directory": g(200, 2000), "mon.save_path_content": g(60, 600), "st.multifile_with_subfiles_of_the_same_name": g(15, 150), "mon.failed_then_successful_save_sequences": g(100, 1000),
        "mon.saves.none": g(150, 1500), "mon.saves.invalid-value": g(300, 6000), "mon.saves.unserialisable-value": g(80, 1500),
        "mon.saves.oserror-at-write-open": g(150, 3000), "mon.saved_reparsed": g(80, 800), "mon.saves.unencodable-value": g(100, 1500),
        "st.target_spelling.fsspec-local": g(30, 300),
        "st.mode.multifile.overwrite": g(30, 300), "st.mode.multifile.no-overwrite": g(30, 300),
        "st.mode.single.overwrite": g(20, 200), "st.mode.single.no-overwrite": g(20, 200),
    },
    assumptions=["for I/O faults the statement only promises that existing files are not modified without overwrite"],
)

META["C19"] = dict(
    title="Path types accept exactly what the mode says; relative paths follow the config",
    level="exploration",
    level_text="Part A: valid mode strings of <=4 flags over {f,d,r,w,x,c,cc,F,D,R,W,X} (flag order shuffled; a sharded sample of "
    "the ~1,000 modes in quick, all in thorough) x 33 path kinds (file, directory, fifo, symlinks, dangling symlink, missing "
    "with/without parent, path through a file, '.', 'dir/..', '~', trailing slashes, empty, chmod 000/222/444/555 files, "
    "000/222/333/555 directories and entries inside them) x working directories x spelling (relative, absolute, cwd=), judged by "
    "an attempt-based OS oracle (open/listdir/create-and-remove, not os.access) in the same process after dropping "
    "CAP_DAC_OVERRIDE/CAP_DAC_READ_SEARCH; also the error type, .relative and .absolute. Part B: config files nested 1-3 deep in "
    "different directories (decoys with the same relative names in the process cwd), referring to each other and to Path_fr, "
    "List[Path_fr], dataclass and inner-parser sub-files relatively, via --cfg / parse_path / default_config_files, with a "
    "failure planted at a chosen depth; cwd before == after."
    " Part B also: the first config reached through a symbolic link to its directory; 'key+' append entries with relative paths; a plain-line list file named on argv by relative / dot-relative / parent-relative / absolute path; the relative spelling of an argument's Path default given from a directory where it leads nowhere; both error channels (ArgumentError and usage + SystemExit 2) for the planted failure, and after every failed parse a relative path given to a fresh parser must resolve against the process cwd. Part A also compares Path with the registered path_type of the same mode inside a parser.",
    level_note="Trusted: the oracle's reading of each flag; FIFO with r/w/c flags and creating through a dangling symlink are "
    "'unspecified'. URL/fsspec flags are not exercised (no network). If the capability drop is refused the negative-permission "
    "sub-space is not observed and the gate on permission_bits_enforced makes the run INCONCLUSIVE.",
    shards=g(4, 16),
    budget=g(50, 300),
    technique="attempt-based OS oracle vs the real Path type in a capability-dropped process + nested-config relative-path oracle",
    rule="A: a case is (set of mode flags, path kind); B: (depth, entry method, failing depth, path-typed keys present). Distinct "
    "by hash; every case is non-trivial (a decision is judged or logged as unspecified).",
    gates={
        "mon.group_config_in_subcommand_section": g(100, 1000), "mon.list_file_on_argv": g(100, 1000),
        "mon.relative_path_after_failed_parse": g(80, 800), "mon.path_object_given_to_another_mode": g(150, 800), "st.nested.exit_on_error.failing": g(30, 300),
        "st.nested.config_dir_through_symlink": g(300, 3000), "st.nested.append_key_with_relative_paths": g(100, 1000),
        "mon.path_type_in_parser_checks": g(500, 5000),
        "mon.path_mode_checks": g(10000, 50000), "st.accept": g(500, 5000), "st.reject": g(5000, 40000),
        "permission_bits_enforced": g(4, 16),
        "st.kind.f000": g(100, 1000), "st.kind.d333": g(100, 1000), "st.kind.through-file": g(100, 1000), "st.kind.dangling-symlink": g(100, 1000),
        "mon.nested_config_parses": g(300, 3000), "mon.relative_paths_checked": g(200, 2000),
        "st.nested.depth3": g(50, 500), "st.nested.failing": g(30, 300),
    },
    assumptions=["the fixture is owned by the (capability-dropped) root user, so owner permission bits decide"],
)

META["C07"] = dict(
    title="Equivalent ways of declaring a nested group behave identically",
    level="exploration",
    level_text="4-version comparator: a generated field list (1-5 fields over 16 annotations; required, ordinary, falsy and None "
    "defaults; optionally a nested dataclass field with overridden defaults placed before other fields) is declared as dotted "
    "arguments, as a dataclass-typed argument, as class arguments under the key and as an inner parser (dataclass and class "
    "written to a real source file); the same input through 11 channels (dotted argv in = and space form, whole-group JSON, "
    "group JSON followed by dotted overrides, config string, --cfg, nested and dotted objects, dotted / whole-group / mixed "
    "environment variables), valid, with one invalid value, null for a field, or an unknown field, must give the same decision, "
    "the same nested values (type for type) and byte-identical dumps.",
    level_note="Whole-group argv/env items are compared among the three styles that declare a group option (the dotted style has "
    "none); error texts are not compared; instantiation is out of scope.",
    shards=g(4, 16),
    budget=g(40, 240),
    technique="N-version differential across declaration styles (decision, values, dump bytes)",
    rule="a case is (channel, field list as (annotation, default) tuples, nested group present, input invalid?, names given); "
    "distinct by hash; non-trivial = all compared styles reached a decision.",
    gates={
        "mon.style_comparisons": g(1500, 15000), "st.all_accepted": g(500, 5000), "st.all_rejected": g(200, 2000), "mon.dumps_identical": g(400, 4000),
        "st.channel.argv-dotted": g(80, 800), "st.channel.argv-group-json": g(80, 800), "st.channel.env-dotted": g(80, 800),
        "st.channel.env-group+dotted": g(80, 800), "st.channel.object": g(80, 800), "st.channel.config-string": g(80, 800),
        "st.field.required": g(200, 2000), "st.field.falsy-default": g(100, 1000),
    },
    assumptions=["null given for a field is an invalid value unless the field is Optional"],
)

META["C08"] = dict(
    title="Parse, validate, dump and instantiate never modify what they are given",
    level="exploration",
    level_text="Boundary recorder with deep before/after snapshots (values, types and identity of every nested mutable container) "
    "around parse_object (dict, Namespace, with a foreign last key), parse_args (argv list, namespace=), parse_string, validate, "
    "dump (yaml/json/skip_default/comments), parse_object of a result, merge_config, strip_unknown, instantiate_classes, "
    "get_defaults, format_help, save and parse_path, on generated parsers of the type grammar (containers inside tuples and "
    "sets, class specs in lists/dicts/tuples, dict_kwargs) for returning and raising calls; the parser's declared defaults, cwd, "
    "environ, argparse.Namespace and sys.argv are compared and the audit log is checked (balanced chdir, no write-open by "
    "read-only operations, no putenv). Freshness: two instantiate_classes calls on one configuration (explicit specs, "
    "lazy_instance defaults, lists / dicts / tuples of classes, nested holders, class groups) must share no instance and "
    "construct equally often. Config files reached through symlinked directories, valid and failing."
    " Also: a default config file giving values for arguments declared without default (format_help / get_defaults must leave the declared defaults alone); arguments with nargs (typed and plain-callable types) and JSON-schema arguments whose schema has defaults; a lazy default instance that the program starts using between parses; a blank (empty / comment-only) default config file with argv items that write below branch-valued declared defaults (class spec, lazy instance, list, dataclass), followed by a defaults-only parse; jsonargparse Path objects whose recorded cwd is not the process working directory given to parse_path and save.",
    level_note="Trusted: the snapshot function. Aliasing between a result and parser defaults is not judged.",
    shards=g(4, 16),
    budget=g(45, 300),
    technique="before/after deep-snapshot recorder at the API boundary + audit-hook log + constructor-log freshness monitor",
    rule="a case is (multiset of argument type skeletons) for generated parsers, (set of class features) for the class parser, "
    "(path spelling, entry method, validity) for symlinked configs; distinct by hash; each runs 10-20 monitored calls.",
    gates={
        "st.list_valued_and_schema_arguments": g(40, 400), "st.blank_default_config_file": g(40, 400),
        "mon.parse_after_writing_below_branch_defaults": g(60, 600), "mon.path_object_with_foreign_cwd": g(30, 300),
        "st.failing_config_parse_with_exit_on_error": g(5, 50),
        "st.parser_with_default_config_file": g(30, 300), "mon.lazy_default_instance_used": g(30, 300),
        "mon.calls_snapshotted": g(3000, 40000), "mon.accepted_configs": g(100, 1500), "mon.instantiate_pairs": g(100, 1500),
        "mon.instances_checked": g(500, 8000), "mon.merge_config_class_change": g(100, 1500), "mon.symlinked_config_parses": g(80, 1000),
        "ev.parse_object.raise": g(100, 1000), "ev.validate-invalid.raise": g(50, 500), "ev.dump.yaml.return": g(100, 1000),
        "ev.instantiate_classes.return": g(200, 2000), "ev.save.return": g(80, 800), "ev.parse_path.raise": g(5, 50),
    },
    assumptions=["parse_args(namespace=ns): ns must stay unchanged too"],
)

META["C13"] = dict(
    title="Parameters resolved through **kwargs are exactly those the code accepts",
    level="exploration",
    level_text="Generated class hierarchies written to real source files (depth 1-5; chain classes choosing among: "
    "super().__init__(**kwargs), super(Cls, self), hard-coded keyword at the call, class without __init__, call to a module "
    "function (optionally with a hard-coded keyword), call to an own method, attribute use in a method, kwargs.pop / kwargs.get "
    "with constant default, constant conditional on a module global, no **kwargs; optional diamond on top; optional split of the "
    "root class and its helper into a second source file; occasional re-declaration of an inherited parameter). Two oracles: a "
    "recursive model over Python's own MRO computing the reachable named parameters from the generator's spec, and the "
    "interpreter (calls with each candidate parameter). Compared with get_signature_parameters: offered set, hard-coded names, "
    "annotation and default per parameter; then add_class_arguments + parse + instantiate_classes with every offered parameter, "
    "and enforcement of required ones. An offered parameter the model does not expect is confirmed by constructing the object and, where **kwargs are kept in an attribute, by using it. Also the documented non-immediate super(Parent, self) that skips the parent's __init__; and per generated hierarchy not only the leaf but up to three classes are resolved in one process in random order (chain classes alone and below their subclasses; Left alone under Solo and inside Diamond), so that anything remembered from one resolution shows in the next.",
    level_note="Only documented patterns are composed; a case where the interpreter itself rejects the model's parameter set is "
    "skipped and counted (generator inconsistency, not a verdict). Conditional<ast-resolver> parameters are excluded from 'offered'.",
    shards=g(4, 16),
    budget=g(40, 240),
    technique="spec-derived reachability model + interpreter oracle vs get_signature_parameters on generated source files",
    rule="a case is (depth, two files?, leaf, tuple of forwarding patterns along the MRO); distinct by hash; non-trivial = the "
    "generated program imports and the interpreter accepts the model's parameter set.",
    gates={
        "st.condition_on_a_parameter": g(100, 1000), "st.pattern.cond-class": g(50, 500),
        "st.pattern.super-skip": g(80, 800), "st.non_leaf_class_of_the_same_hierarchy.before_the_leaf": g(600, 6000),
        "st.non_leaf_class_of_the_same_hierarchy.after_the_leaf": g(600, 6000), "st.two_classes_sharing_a_base_with_different_mro_continuations": g(200, 2000),
        "mon.programs": g(600, 8000), "mon.parameter_sets_compared": g(500, 7000), "mon.parser_instantiations": g(400, 6000), "mon.required_enforced": g(50, 500),
        "st.depth.5": g(40, 400), "st.multiple_inheritance": g(50, 500), "st.two_source_files": g(100, 1000), "st.hard_coded_argument": g(100, 1000),
        "st.pattern.super": g(200, 2000), "st.pattern.super-hard": g(80, 800), "st.pattern.noinit": g(80, 800), "st.pattern.func": g(80, 800),
        "st.pattern.method": g(50, 500), "st.pattern.attr": g(80, 800), "st.pattern.pop": g(80, 800), "st.pattern.get": g(50, 500), "st.pattern.cond": g(80, 800),
    },
    assumptions=["parameters that differ between conditional branches are Conditional<ast-resolver> and not 'offered by default'"],
)
