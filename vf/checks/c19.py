"""C19 — path types accept exactly what the mode says; relative paths follow the config.

Part A: every valid mode of <=4 flags (no URL/fsspec flags) x a fixture of path kinds x working directories,
judged by an attempt-based OS oracle (independent of os.access) evaluated in the same capability-dropped
process as the library call (the checks run as root: CAP_DAC_OVERRIDE / CAP_DAC_READ_SEARCH are dropped so
that permission bits apply). Part B: config files nested up to 3 deep in different directories referring to
each other and to path-typed values relatively; expected location = directory of the file that wrote it;
the working directory must be restored, also when parsing fails at any depth."""

from __future__ import annotations

import ctypes
import itertools
import json
import os
import shutil
import stat
from typing import List, Optional

from jsonargparse import ActionConfigFile, ActionParser, ArgumentParser
from jsonargparse._util import Path
from jsonargparse.typing import Path_dw, Path_fc, Path_fr, path_type

from vf.fixtures import zoo
from vf.util import call, short


def drop_caps():
    """Clear CAP_DAC_OVERRIDE(1) and CAP_DAC_READ_SEARCH(2) so that root obeys permission bits."""
    try:
        libc = ctypes.CDLL(None, use_errno=True)

        class Hdr(ctypes.Structure):
            _fields_ = [("version", ctypes.c_uint32), ("pid", ctypes.c_int)]

        class Data(ctypes.Structure):
            _fields_ = [("effective", ctypes.c_uint32), ("permitted", ctypes.c_uint32), ("inheritable", ctypes.c_uint32)]

        hdr = Hdr(0x20080522, 0)
        data = (Data * 2)()
        if libc.capget(ctypes.byref(hdr), data) != 0:
            return False
        mask = ~((1 << 1) | (1 << 2)) & 0xFFFFFFFF
        data[0].effective &= mask
        data[0].permitted &= mask
        data[0].inheritable &= mask
        if libc.capset(ctypes.byref(hdr), data) != 0:
            return False
        return True
    except Exception:
        return False


def make_fixture(root):
    shutil.rmtree(root, ignore_errors=True)
    os.makedirs(root)
    j = lambda *a: os.path.join(root, *a)  # noqa: E731
    open(j("file.txt"), "w").write("x")
    os.mkdir(j("dir"))
    open(j("dir", "inner.txt"), "w").write("y")
    os.mkfifo(j("fifo"))
    os.symlink("file.txt", j("link_file"))
    os.symlink("dir", j("link_dir"))
    os.symlink("nothing_here", j("dangling"))
    for mode in (0o000, 0o222, 0o444, 0o555, 0o644, 0o755):
        fn = j(f"f{mode:03o}")
        open(fn, "w").write("z")
        os.chmod(fn, mode)
    for mode in (0o000, 0o333, 0o555, 0o222, 0o755):
        dn = j(f"d{mode:03o}")
        os.mkdir(dn)
        open(os.path.join(dn, "child.txt"), "w").write("c")
        os.chmod(dn, mode)
    os.mkdir(j("home"))
    open(j("home", "hfile"), "w").write("h")
    kinds = {
        "file": "file.txt", "dir": "dir", "fifo": "fifo", "symlink-file": "link_file", "symlink-dir": "link_dir", "dangling-symlink": "dangling",
        "missing-with-parent": "new.txt", "missing-in-dir": "dir/new.txt", "missing-without-parent": "nodir/sub/new.txt", "through-file": "file.txt/sub",
        "dot": ".", "dotdot-dir": "dir/..", "tilde-file": "~/hfile", "tilde-missing": "~/nope", "inner-file": "dir/inner.txt",
        "f000": "f000", "f222": "f222", "f444": "f444", "f555": "f555", "f755": "f755", "d000": "d000", "d333": "d333", "d555": "d555", "d222": "d222",
        "in-d000": "d000/child.txt", "in-d333": "d333/child.txt", "in-d555": "d555/child.txt", "new-in-d555": "d555/new.txt", "new-in-d333": "d333/new.txt", "new-in-d222": "d222/new.txt",
        "empty": "", "trailing-slash-dir": "dir/", "trailing-slash-file": "file.txt/",
    }
    return kinds


def cleanup_fixture(root):
    for dp, dn, fn in os.walk(root):
        for d in dn:
            try:
                os.chmod(os.path.join(dp, d), 0o755)
            except OSError:
                pass
    shutil.rmtree(root, ignore_errors=True)


def all_modes():
    flags = ["f", "d", "r", "w", "x", "c", "F", "D", "R", "W", "X"]
    out = []
    for n in range(1, 5):
        for combo in itertools.combinations(flags, n):
            if "f" in combo and "d" in combo:
                continue
            out.append("".join(combo))
            if "c" in combo and n < 4:
                out.append("".join(combo) + "c")  # cc
    return out


# ---- attempt-based oracle --------------------------------------------------------------------------
def facts(abs_path):
    f = dict(exists=False, isdir=False, isfile=False, isfifo=False, statable=True)
    try:
        st = os.stat(abs_path)
        f["exists"] = True
        f["isdir"] = stat.S_ISDIR(st.st_mode)
        f["isfile"] = stat.S_ISREG(st.st_mode)
        f["isfifo"] = stat.S_ISFIFO(st.st_mode)
        f["mode"] = st.st_mode
    except OSError:
        f["statable"] = False
    if f["exists"]:
        if f["isdir"]:
            try:
                os.listdir(abs_path)
                f["r"] = True
            except OSError:
                f["r"] = False
            f["w"] = bool(f["mode"] & 0o200)  # owner bit (we own the fixture); creating an entry additionally needs x
            f["x"] = bool(f["mode"] & 0o100)
            if f["w"] and f["x"]:
                probe = os.path.join(abs_path, ".vf_probe")
                try:
                    fd = os.open(probe, os.O_CREAT | os.O_WRONLY, 0o600)
                    os.close(fd)
                    os.remove(probe)
                except OSError:
                    f["w"] = False
        elif f["isfile"]:
            try:
                fd = os.open(abs_path, os.O_RDONLY)
                os.close(fd)
                f["r"] = True
            except OSError:
                f["r"] = False
            try:
                fd = os.open(abs_path, os.O_WRONLY | os.O_APPEND)
                os.close(fd)
                f["w"] = True
            except OSError:
                f["w"] = False
            f["x"] = bool(f["mode"] & 0o100)
        else:
            f["r"] = bool(f["mode"] & 0o400)
            f["w"] = bool(f["mode"] & 0o200)
            f["x"] = bool(f["mode"] & 0o100)
    return f


def creatable_parent(abs_path, cc):
    pdir = os.path.realpath(os.path.join(abs_path, ".."))
    if cc:
        prev = None
        while not os.path.isdir(pdir) and pdir != prev:
            prev = pdir
            pdir = os.path.realpath(os.path.join(pdir, ".."))
    if not os.path.isdir(pdir):
        return False, "parent-missing"
    pf = facts(pdir)
    if not pf.get("w"):
        return False, "parent-not-writeable"
    return True, pdir


def model(abs_path, mode):
    """-> 'accept' | 'reject' | 'unspecified'"""
    f = facts(abs_path)
    file_like = f["isfile"] or f["isfifo"]
    if f["isfifo"] and any(c in mode for c in "rwRWc"):
        return "unspecified"
    # a path that goes *through* something that is not a directory can be neither stat-ed nor created
    if "c" in mode:
        ok, why = creatable_parent(abs_path, mode.count("c") == 2)
        if not ok:
            return "reject"
        if mode.count("c") == 2:
            # every component between the nearest existing ancestor and the path must be creatable: not through a file
            cur = os.path.dirname(abs_path.rstrip("/")) if abs_path.rstrip("/") else abs_path
            while cur and not os.path.lexists(cur):
                cur = os.path.dirname(cur)
            if cur and os.path.exists(cur) and not os.path.isdir(cur):
                return "reject"
        if "d" in mode and f["exists"] and not f["isdir"]:
            return "reject"
        if "f" in mode and f["exists"] and not f["isfile"]:
            return "reject"
        if not f["exists"] and os.path.lexists(abs_path):
            return "unspecified"  # dangling symlink: creatable through the link? not stated
    else:
        if "d" in mode and not (f["exists"] and f["isdir"]):
            return "reject"
        if "f" in mode and not (f["exists"] and file_like):
            return "reject"
    for flag in "rwx":
        if flag in mode and not (f["exists"] and f.get(flag)):
            return "reject"
    if "D" in mode and f["isdir"]:
        return "reject"
    if "F" in mode and file_like:
        return "reject"
    for flag in "RWX":
        if flag in mode and f["exists"] and f.get(flag.lower()):
            return "reject"
    if not f["exists"] and mode.strip("c") and not set(mode) - set("cFDRWX") == set() and not ("c" in mode):
        return "reject"
    return "accept"


_TP = {}


def _typed_parser(mode_s):
    from jsonargparse import ArgumentParser
    from jsonargparse.typing import path_type

    key = "".join(sorted(mode_s))
    if key not in _TP:
        p = ArgumentParser(exit_on_error=False)
        p.add_argument("--p", type=path_type(mode_s))
        _TP[key] = p
    return _TP[key]


def part_a(ctx, rng, capdrop):
    root = os.path.join(ctx.workdir, "fx")
    kinds = make_fixture(root)
    modes = all_modes()
    ctx.extra(valid_modes_total=len(modes))
    rng.shuffle(modes)
    if ctx.tier == "quick":
        modes = modes[ctx.shard :: ctx.nshards][:260]
    else:
        modes = modes[ctx.shard :: ctx.nshards]
    home = os.path.join(root, "home")
    old_home = os.environ.get("HOME")
    os.environ["HOME"] = home
    cwds = [root, os.path.join(root, "dir"), ctx.workdir]
    old = os.getcwd()
    try:
        for mode in modes:
            flags = list(mode)
            rng.shuffle(flags)
            mode_s = "".join(flags)
            for kind, rel in kinds.items():
                for cwd in cwds[: 1 if ctx.tier == "quick" and rng.random() < 0.7 else 3]:
                    spell = rng.choice(["relative", "absolute", "cwd-kwarg"])
                    if rel.startswith("~"):
                        spell = "relative"
                    os.chdir(cwd)
                    base_abs = os.path.join(home, rel[2:]) if rel.startswith("~/") else os.path.join(root, rel) if rel else root
                    if spell == "absolute":
                        given, kw = (os.path.join(root, rel) if rel else root + "/"), {}
                        exp_abs = given
                    elif spell == "cwd-kwarg":
                        given, kw = rel, {"cwd": root}
                        exp_abs = os.path.join(root, rel)
                    else:
                        given = rel if rel.startswith("~") else os.path.relpath(os.path.join(root, rel), cwd) if rel else ""
                        if rel.endswith("/") and not given.endswith("/"):
                            given += "/"
                        kw = {}
                        exp_abs = os.path.join(home, rel[2:]) if rel.startswith("~/") else os.path.join(cwd, given)
                    before_cwd = os.getcwd()
                    expd = model(exp_abs, mode_s)
                    o = call(Path, given, mode=mode_s, **kw)
                    ctx.count("mon.path_mode_checks")
                    ctx.count("evaluations")
                    ctx.distinct(("A", "".join(sorted(mode_s)), kind))
                    ctx.count(f"st.kind.{kind}")
                    w = dict(mode=mode_s, kind=kind, given=given, cwd_kwarg=kw.get("cwd"), process_cwd=os.path.relpath(cwd, ctx.workdir), expected=expd, outcome=o.brief(), capabilities_dropped=capdrop)
                    if ctx.counters["mon.path_mode_checks"] in (7, 400):
                        ctx.sample(dict(part="A", **{k: w[k] for k in ("mode", "kind", "given", "expected", "outcome")}))
                    if os.getcwd() != before_cwd:
                        ctx.violation("path", "cwd-changed-by-Path", w)
                        os.chdir(before_cwd)
                    if o.kind == "raise" and o.exc_type != "PathError":
                        ctx.violation("path", f"undocumented-error/{o.exc_type}/{'F-flag' if 'F' in mode_s else 'other'}/{kind if kind in ('through-file', 'dangling-symlink', 'in-d000', 'trailing-slash-file') else 'other'}", w)
                        continue
                    acc = o.accepted
                    if expd == "unspecified":
                        ctx.count("unspecified_not_judged")
                        continue
                    ctx.count("st.accept" if acc else "st.reject")
                    if spell != "cwd-kwarg" and given and not given.startswith("-") and ctx.counters["mon.path_mode_checks"] % 5 == 0:
                        # the registered path type of this mode inside a parser decides like Path itself
                        op = call(_typed_parser(mode_s).parse_args, [f"--p={given}"])
                        ctx.count("mon.path_type_in_parser_checks")
                        if (op.accepted or op.rejected) and op.accepted != acc:
                            ctx.violation("path", f"path_type-in-parser-disagrees-with-Path/{'accepts' if op.accepted else 'rejects'}/{why_class(mode_s, kind)}", dict(w, parser_outcome=op.brief()))
                        elif op.accepted and (str(op.value.p) != given or op.value.p.absolute != o.value.absolute):
                            ctx.violation("path", "path_type-in-parser-resolves-differently", dict(w, parsed=repr(op.value.p), absolute=op.value.p.absolute))
                    if acc and spell != "cwd-kwarg" and ctx.counters["mon.path_mode_checks"] % 7 == 0:
                        # the accepted Path object handed (as an object) to an argument whose path type has another mode:
                        # that mode decides
                        m2 = ("dw", "fr", "fc", "dr", "fw", "dx")[ctx.counters["mon.path_mode_checks"] // 7 % 6]
                        if set(m2) != set(mode_s):
                            exp2 = model(exp_abs, m2)
                            o2 = call(_typed_parser(m2).parse_object, {"p": o.value})
                            ctx.count("mon.path_object_given_to_another_mode")
                            if exp2 != "unspecified" and (o2.accepted or o2.rejected) and o2.accepted != (exp2 == "accept"):
                                ctx.violation("path", f"path-object-of-another-mode/{'accepted-although-mode-not-satisfied' if o2.accepted else 'rejected-although-mode-satisfied'}/{m2}", dict(w, other_mode=m2, expected_for_other_mode=exp2, outcome_for_other_mode=o2.brief()))
                    if acc and expd == "reject":
                        ctx.violation("path", f"accepted-although-mode-not-satisfied/{why_class(mode_s, kind)}", w)
                    elif not acc and expd == "accept":
                        ctx.violation("path", f"rejected-although-mode-satisfied/{why_class(mode_s, kind)}", w)
                    elif acc:
                        pth = o.value
                        if pth.relative != given:
                            ctx.violation("path", "relative-is-not-the-original-spelling", dict(w, relative=pth.relative))
                        elif pth.absolute != exp_abs or not os.path.isabs(pth.absolute):
                            ctx.violation("path", f"absolute-wrong/{spell}", dict(w, absolute=pth.absolute, expected_absolute=exp_abs))
    finally:
        os.chdir(old)
        if old_home is not None:
            os.environ["HOME"] = old_home
        cleanup_fixture(root)


def why_class(mode, kind):
    m = "".join(sorted(set(mode)))
    grp = "cc" if mode.count("c") == 2 else ("c" if "c" in mode else "plain")
    k = kind if kind in ("through-file", "dangling-symlink", "fifo", "empty", "trailing-slash-file", "trailing-slash-dir", "new-in-d222", "new-in-d333", "new-in-d555", "d222", "d333", "in-d000", "in-d333") else "other"
    return f"{grp}/{k}"


# ---- Part B: relative paths follow the config -------------------------------------------------------
def part_b_case(ctx, i, rng):
    import yaml

    root = os.path.join(ctx.workdir, f"nb{i % 8}")
    shutil.rmtree(root, ignore_errors=True)
    depth = rng.choice([1, 2, 3])
    # one directory per nesting level, in unrelated places
    names = ["top", "a/b", "x/y/z"]
    rng.shuffle(names)
    dirs = [os.path.join(root, names[k]) for k in range(depth)]
    for k, d in enumerate(dirs):
        os.makedirs(os.path.join(d, "data"))
        open(os.path.join(d, "data", "target.txt"), "w").write(f"level {k}")
    elsewhere = os.path.join(root, "elsewhere")
    os.makedirs(os.path.join(elsewhere, "data"))
    os.makedirs(os.path.join(elsewhere, "lists"))
    os.makedirs(os.path.join(root, "data"), exist_ok=True)
    open(os.path.join(root, "data", "target.txt"), "w").write("decoy one level above the process cwd")
    open(os.path.join(elsewhere, "data", "target.txt"), "w").write("decoy in the process cwd")
    # parsers: level k has a path option, a list of paths, a dataclass sub-file and (if not last) an inner parser for level k+1
    parsers = []
    exiting = rng.random() < 0.35  # failures are reported by usage + exit status 2 (SystemExit) instead of ArgumentError
    for k in reversed(range(depth)):
        q = ArgumentParser(exit_on_error=not exiting)
        if k == 0:
            q.add_argument("--cfg", action=ActionConfigFile)
        q.add_argument(f"--f{k}", type=Path_fr)
        q.add_argument(f"--fs{k}", type=List[Path_fr], enable_path=True)
        q.add_argument(f"--o{k}", type=Optional[Path_fr])
        q.add_argument(f"--pt{k}", type=zoo.Point)
        q.add_argument(f"--n{k}", type=int, default=0)
        if parsers:
            q.add_argument(f"--l{k + 1}", action=ActionParser(parser=parsers[-1]))
        parsers.append(q)
    p = parsers[-1]
    fail_at = rng.randrange(depth) if rng.random() < 0.3 else None
    fail_kind = rng.choice(["missing-path", "bad-value"])
    expected = {}
    prefix = ""
    append_key = False
    for k, d in enumerate(dirs):
        doc = {f"n{k}": k + 1, f"f{k}": "data/target.txt"}
        expected[prefix + f"f{k}"] = os.path.join(d, "data", "target.txt")
        r = rng.random()
        if k == 0 and r < 0.2:
            # the list is given in its append spelling: the paths still belong to this config file
            doc["fs0+"] = ["data/target.txt", "./data/../data/target.txt"]
            expected["fs0"] = [os.path.join(d, "data", "target.txt")] * 2
            append_key = True
        elif r < 0.35:
            doc[f"fs{k}"] = ["data/target.txt", "./data/../data/target.txt"]
            expected[prefix + f"fs{k}"] = [os.path.join(d, "data", "target.txt")] * 2
        elif r < 0.7:
            # the list itself lives in its own file (a YAML list of relative paths) next to this config
            os.makedirs(os.path.join(d, "lists"), exist_ok=True)
            with open(os.path.join(d, "lists", "files.yaml"), "w") as f:
                f.write("- ../data/target.txt\n- ../data/../data/target.txt\n")
            doc[f"fs{k}"] = "lists/files.yaml"
            expected[prefix + f"fs{k}"] = [os.path.join(d, "data", "target.txt")] * 2
        if rng.random() < 0.4:
            doc[f"o{k}"] = "data/target.txt"
            expected[prefix + f"o{k}"] = os.path.join(d, "data", "target.txt")
        if rng.random() < 0.4:
            open(os.path.join(d, "pt.yaml"), "w").write("x: 3\ny: 1.5\n")
            doc[f"pt{k}"] = "pt.yaml"
        if fail_at == k:
            if fail_kind == "missing-path":
                doc[f"f{k}"] = "data/missing.txt"
            else:
                doc[f"n{k}"] = "not-an-int"
        if k + 1 < depth:
            doc[f"l{k + 1}"] = os.path.relpath(os.path.join(dirs[k + 1], "c.yaml"), d)
        with open(os.path.join(d, "c.yaml"), "w") as f:
            yaml.safe_dump(doc, f, sort_keys=False)
        prefix += f"l{k + 1}."
    entry = os.path.join(dirs[0], "c.yaml")
    symlinked = rng.random() < 0.3
    if symlinked:
        # the first config file is reached through a symbolic link to its directory
        os.symlink(dirs[0], os.path.join(root, "link0"))
        entry = os.path.join(root, "link0", "c.yaml")
        ctx.count("st.nested.config_dir_through_symlink")
    if append_key:
        ctx.count("st.nested.append_key_with_relative_paths")
    how = rng.choice(["--cfg abs", "--cfg rel", "parse_path abs", "parse_path rel", "default_config_files"])
    old = os.getcwd()
    os.chdir(elsewhere)
    try:
        before = os.getcwd()
        if how == "--cfg abs":
            o = call(p.parse_args, ["--cfg", entry])
        elif how == "--cfg rel":
            o = call(p.parse_args, ["--cfg", os.path.relpath(entry, elsewhere)])
        elif how == "parse_path abs":
            o = call(p.parse_path, entry)
        elif how == "parse_path rel":
            o = call(p.parse_path, os.path.relpath(entry, elsewhere))
        else:
            p.default_config_files = [entry]
            o = call(p.parse_args, [])
        after = os.getcwd()
        follow = None
        if not o.accepted and after == before:
            # after a failed parse the process is where it was *and* a relative path given next is resolved from there
            q = ArgumentParser(exit_on_error=False)
            q.add_argument("--f", type=Path_fr)
            follow = call(q.parse_args, ["--f=data/target.txt"])
            ctx.count("mon.relative_path_after_failed_parse")
    finally:
        os.chdir(old)
    if exiting:
        ctx.count("st.nested.exit_on_error" + (".failing" if not o.accepted else ""))
    if follow is not None and not (follow.accepted and os.path.realpath(follow.value.f.absolute) == os.path.realpath(os.path.join(elsewhere, "data", "target.txt"))):
        ctx.violation("relative", f"relative-path-after-failed-parse-not-resolved-against-cwd/{how.split()[0]}", dict(depth=depth, how=how, fail_at=fail_at, exiting=exiting, outcome=o.brief(), follow=follow.brief()))
        return
    ctx.evaluation(("B", depth, how, fail_at, fail_kind if fail_at is not None else None, tuple(sorted(expected))))
    ctx.count("mon.nested_config_parses")
    ctx.count(f"st.nested.depth{depth}")
    ctx.count(f"st.nested.{'failing' if fail_at is not None else 'valid'}")
    w = dict(depth=depth, how=how, fail_at=fail_at, fail_kind=fail_kind if fail_at is not None else None, dirs=[os.path.relpath(d, root) for d in dirs], outcome=o.brief(), through_symlink=symlinked, append_key=append_key)
    if after != before:
        ctx.violation("relative", f"cwd-not-restored/{'after-failure' if not o.accepted else 'after-success'}{'/exit' if o.kind == 'exit' else ''}", dict(w, before=before, after=after))
        return
    if fail_at is not None:
        if o.accepted:
            ctx.violation("relative", f"nested-config-with-{fail_kind}-accepted/depth{fail_at}", w)
        return
    if not o.accepted:
        ctx.violation("relative", f"valid-nested-configs-rejected/{how.split()[0]}{'/with-append-key' if append_key else ''}", w)
        return
    cfg = o.value
    for key, exp in expected.items():
        got = cfg.get(key)
        gots = got if isinstance(got, list) else [got]
        exps = exp if isinstance(exp, list) else [exp]
        if got is None or len(gots) != len(exps) or any(os.path.realpath(g.absolute if hasattr(g, "absolute") else str(g)) != os.path.realpath(e) for g, e in zip(gots, exps)):
            ctx.violation("relative", f"relative-path-not-resolved-against-its-config-file/level{key.count('.')}/{how.split()[0]}{'/with-append-key' if append_key and key == 'fs0' else ''}", dict(w, key=key, expected=exp, got=short(got)))
            return
        ctx.count("mon.relative_paths_checked")
    if i < 2:
        ctx.sample(dict(part="B", depth=depth, how=how, dirs=w["dirs"], resolved={k: short(cfg.get(k), 120) for k in expected}))


class _Grp:
    def __init__(self, paths: List[Path_fr], one: Optional[Path_fr] = None, n: int = 1):
        pass


def subcommand_group_config_case(ctx, i, rng):
    """a config whose subcommand section names a group config file in another directory: the relative paths inside that
    file belong to it, at every subcommand depth and through every way of giving the outer config"""
    import yaml

    root = os.path.join(ctx.workdir, f"sg{i % 4}")
    shutil.rmtree(root, ignore_errors=True)
    for d in ("A", "B/data", "work/data", "A/data"):
        os.makedirs(os.path.join(root, d))
    for d in ("B", "work", "A"):
        open(os.path.join(root, d, "data", "t.txt"), "w").write(d)
    with open(os.path.join(root, "B", "group.yaml"), "w") as f:
        yaml.safe_dump({"paths": ["data/t.txt", "./data/t.txt"], "one": "data/t.txt", "n": 2}, f)
    depth = rng.choice([1, 2])
    sect = {"group": "../B/group.yaml"}
    doc = {"fit": sect} if depth == 1 else {"fit": {"deep": sect}}
    with open(os.path.join(root, "A", "main.yaml"), "w") as f:
        yaml.safe_dump(doc, f)

    p = ArgumentParser(exit_on_error=False)
    p.add_argument("--cfg", action=ActionConfigFile)
    sc = p.add_subcommands()
    fit = ArgumentParser(exit_on_error=False)
    sc.add_subcommand("fit", fit)
    if depth == 1:
        fit.add_class_arguments(_Grp, "group")
    else:
        sc2 = fit.add_subcommands(dest="cmd")
        deep = ArgumentParser(exit_on_error=False)
        deep.add_class_arguments(_Grp, "group")
        sc2.add_subcommand("deep", deep)
    how = rng.choice(["--cfg", "parse_path", "argv"])
    old = os.getcwd()
    os.chdir(os.path.join(root, "work"))
    try:
        if how == "--cfg":
            o = call(p.parse_args, ["--cfg", "../A/main.yaml"])
        elif how == "parse_path":
            o = call(p.parse_path, "../A/main.yaml")
        else:
            o = call(p.parse_args, ["fit"] + (["deep"] if depth == 2 else []) + ["--group", "../B/group.yaml"])
        after = os.getcwd()
    finally:
        os.chdir(old)
    ctx.count("mon.group_config_in_subcommand_section")
    ctx.evaluation(("B-subcommand-group", depth, how))
    w = dict(depth=depth, how=how, outcome=o.brief())
    exp = os.path.realpath(os.path.join(root, "B", "data", "t.txt"))
    if os.path.realpath(after) != os.path.realpath(os.path.join(root, "work")):
        ctx.violation("relative", "cwd-not-restored/subcommand-group-config", dict(w, after=after))
        return
    if not o.accepted:
        ctx.violation("relative", f"group-config-of-subcommand-rejected/{how}/depth{depth}", w)
        return
    g = o.value.fit.group if depth == 1 else o.value.fit.deep.group
    got = [os.path.realpath(x.absolute) for x in list(g.paths) + [g.one]]
    if got != [exp] * 3:
        ctx.violation("relative", f"relative-path-not-resolved-against-its-config-file/subcommand-group-config/{how}", dict(w, got=got, expected=exp))


def list_file_case(ctx, i, rng):
    """a plain-line list file named on the command line by a relative path: the file is found from the process cwd, its
    lines are resolved against the list file's own directory"""
    root = os.path.join(ctx.workdir, f"lf{i % 4}")
    shutil.rmtree(root, ignore_errors=True)
    sub = rng.choice(["sub", "a/b", "lists"])
    os.makedirs(os.path.join(root, "here", sub, "data"))
    os.makedirs(os.path.join(root, "here", "data"))
    for d in (os.path.join(root, "here", sub, "data"), os.path.join(root, "here", "data")):
        open(os.path.join(d, "x.txt"), "w").write("x")
    with open(os.path.join(root, "here", sub, "files.lst"), "w") as f:
        f.write("data/x.txt\n./data/../data/x.txt\n")
    q = ArgumentParser(exit_on_error=False)
    q.add_argument("--fs", type=List[Path_fr], enable_path=True)
    spelling = rng.choice(["relative", "dot-relative", "absolute", "parent-relative"])
    given = {"relative": f"{sub}/files.lst", "dot-relative": f"./{sub}/files.lst", "absolute": os.path.join(root, "here", sub, "files.lst"), "parent-relative": f"../here/{sub}/files.lst"}[spelling]
    old = os.getcwd()
    os.chdir(os.path.join(root, "here"))
    try:
        o = call(q.parse_args, ["--fs", given] if rng.random() < 0.5 else [f"--fs={given}"])
        after = os.getcwd()
    finally:
        os.chdir(old)
    # the spelling of the argument's default, given where it does not lead to a file: a path value is a checked Path, never a raw str
    os.makedirs(os.path.join(root, "other"), exist_ok=True)
    os.chdir(os.path.join(root, "here", sub))
    try:
        q2 = ArgumentParser(exit_on_error=False)
        q2.add_argument("--f", type=Path_fr, default=Path_fr("data/x.txt"))
        os.chdir(os.path.join(root, "other"))
        o2 = call(q2.parse_args, ["--f=data/x.txt"])
    finally:
        os.chdir(old)
    ctx.count("mon.default_spelling_given_elsewhere")
    if o2.accepted and (not hasattr(o2.value.f, "absolute") or not os.path.isfile(o2.value.f.absolute)):
        ctx.violation("path", "accepted-although-mode-not-satisfied/spelling-equal-to-default", dict(given="data/x.txt", cwd="<root>/other", default_created_in=f"<root>/here/{sub}", result=repr(o2.value.f), result_type=type(o2.value.f).__name__))
    ctx.count("mon.list_file_on_argv")
    ctx.evaluation(("B-list-file", sub, spelling))
    w = dict(list_file=given, cwd="<root>/here", outcome=o.brief())
    exp = os.path.join(root, "here", sub, "data", "x.txt")
    if os.path.realpath(after) != os.path.realpath(os.path.join(root, "here")):
        ctx.violation("relative", "cwd-not-restored/list-file", dict(w, after=after))
    elif not o.accepted:
        ctx.violation("relative", f"list-file-named-by-path-rejected/{spelling}", w)
    elif [os.path.realpath(x.absolute) for x in o.value.fs] != [os.path.realpath(exp)] * 2:
        ctx.violation("relative", f"list-file-lines-not-resolved-against-the-list-file/{spelling}", dict(w, got=short(o.value.fs)))


def run_shard(ctx):
    capdrop = drop_caps()
    ctx.extra(capabilities_dropped=capdrop)
    if capdrop:
        ctx.count("capdrop_ok")
    # sanity: do permission bits apply now?
    probe = os.path.join(ctx.workdir, "capprobe")
    open(probe, "w").write("x")
    os.chmod(probe, 0)
    try:
        open(probe).read()
        ctx.extra(permission_bits_enforced=False)
    except OSError:
        ctx.extra(permission_bits_enforced=True)
        ctx.count("permission_bits_enforced")
    os.chmod(probe, 0o600)
    rng = ctx.case_rng(0, "A")
    if ctx.replay is None:
        part_a(ctx, rng, capdrop)
    for i, r in ctx.cases():
        part_b_case(ctx, i, r)
        if i % 5 == 0:
            list_file_case(ctx, i, r)
        if i % 5 == 2:
            subcommand_group_config_case(ctx, i, r)
        if i > (1500 if ctx.tier == "quick" else 8000):
            break
