"""C02 — accepted values conform to the declared type; acceptance is compositional.

(a) every accepted result is checked by an independent structural validator (vf.models.conform), at the
    API boundary and — through an icontract postcondition on the real adapt_typehints — at every nesting
    level of every call;
(b) strictly conforming native values must be accepted;
(b') near misses that no coercion rule can rescue must be rejected;
(c) accept(Container[T], v) == AND accept(T, element)   [right-hand side asked from the real parser]
(d) accept(Union[perm], v) is the same for every permutation and == OR accept(member, v)."""

from __future__ import annotations

import copy
import itertools
import json

from jsonargparse import ArgumentParser
from jsonargparse import _typehints as th

from vf.gen import types as G
from vf.gen.values import hostile_string
from vf.models.conform import input_conforms, strict
from vf.util import call, short

REG = {}  # raw hint -> T, for the internal contract
POST = {"evals": 0, "skipped": 0, "bad": [], "available": False}
LEAFLIKE = {"str", "int", "float", "bool", "enum", "literal", "rnum", "rstr", "reg"}


def register(t):
    for n in t.walk():
        try:
            REG.setdefault(n.hint, n)
        except TypeError:
            pass


def adapt_post(val, typehint, serialize, instantiate_classes, result):
    if serialize or instantiate_classes:
        return True
    try:
        t = REG.get(typehint)
    except TypeError:
        t = None
    if t is None or t.has("dataclass", "class", "any"):
        POST["skipped"] += 1
        return True
    POST["evals"] += 1
    if result is None:
        return True  # the statement speaks about non-null values; a None passing a non-optional hint is (b')'s business
    r = strict(result, t)
    if r and len(POST["bad"]) < 20:
        POST["bad"].append((t.skel, short(val), short(result), r))
    return True


def install_contract(ctx):
    try:
        import icontract

        class PostBroken(Exception):
            pass

        th.adapt_typehints = icontract.ensure(adapt_post, error=PostBroken)(th.adapt_typehints)
        POST["available"] = True
    except Exception as ex:
        ctx.observe("probe_unavailable.icontract", f"{type(ex).__name__}: {ex}")


_PARSERS = {}


def parser_for(t):
    p = _PARSERS.get(t.skel + str(id(t.hint)))
    if p is None:
        p = ArgumentParser(exit_on_error=False)
        p.add_argument("--k", type=t.hint)
        if len(_PARSERS) > 3000:
            _PARSERS.clear()
        _PARSERS[t.skel + str(id(t.hint))] = p
        register(t)
    return p


def accept_obj(t, v):
    o = call(parser_for(t).parse_object, {"k": copy.deepcopy(v)})
    return o


def accept_argv(t, text):
    return call(parser_for(t).parse_args, [f"--k={text}"])


def accept_cfg(t, v):
    return call(parser_for(t).parse_string, json.dumps({"k": v}))


def flush_contract(ctx, context):
    while POST["bad"]:
        skel, val, res, r = POST["bad"].pop()
        ctx.violation("adapt_typehints.post", f"a/internal/nonconforming-result/{kind_of_reason(r)}", dict(hint=skel, value=val, result=res, why=r, context=context))


def kind_of_reason(r):
    import re

    return re.sub(r"[^A-Za-z ,]+", "", r[1].split(":")[0])[:60].strip().replace(" ", "-")


def jsonable(v):
    try:
        json.dumps(v)
        return True
    except (TypeError, ValueError):
        return False


def leaflike(t):
    if t.kind in LEAFLIKE:
        return True
    if t.kind == "optional":
        return leaflike(t.children[0])
    if t.kind == "union":
        return all(leaflike(c) for c in t.children)
    return False


def lookalike(rng, t):
    """strings that only look like another type"""
    return rng.choice(["1", "1.0", "true", "null", "[1]", "{a: 1}", "abc", "", "0x10", "1e3", "~", "yes", "red", "None", "-1", "1.5", "false", "[]", "on"])


def elem_candidates(rng, t, n):
    """element candidates for compositionality: natives (conforming / near miss) and, at leaf-like
    positions, strings"""
    out = []
    for _ in range(n):
        r = rng.random()
        if r < 0.55:
            v = G.conforming(rng, t, hostile=0.1)
            if v is None and t.kind not in ("optional",):
                continue
            out.append(G.to_input(t, v) if rng.random() < 0.7 or not _hashable_ok(v) else v)
        elif r < 0.8:
            nm = G.nearmiss(rng, t)
            if nm is not None:
                out.append(nm[0])
        elif leaflike(t):
            out.append(lookalike(rng, t))
        else:
            out.append(rng.choice([1, True, None, 2.5, [1], {"a": 1}]))
    return out


def _hashable_ok(v):
    return True


def check_a(ctx, t, o, how, val):
    """accepted result must conform"""
    if not o.accepted:
        return
    res = o.value.k if hasattr(o.value, "k") else None
    ctx.count("mon.a.boundary_conformance")
    if res is None:
        return
    r = strict(res, t)
    if r:
        ctx.violation("conform", f"a/nonconforming-result/{how}/{kind_of_reason(r)}", dict(hint=t.skel, given=short(val), result=short(res), why=r))


def note(ctx, t, o):
    for k in t.kinds():
        ctx.count(f"st.{'accept' if o.accepted else 'reject'}.{k}")
    if not o.accepted and not o.rejected:
        ctx.observe("escape_not_judged_here(C03)", f"{t.skel}: {o.brief()}")


def case_basic(ctx, rng):
    depth = 3 if ctx.tier == "quick" else 4
    t = G.gen_type(rng, rng.choice([1, 2, depth, depth]))
    if t.kind == "rnum" and G.rnum_value(rng, t.extra, True) is None:
        return
    ctx.evaluation(("basic", t.skel))
    # (b) conforming natives through the object channel
    for _ in range(3):
        v = G.conforming(rng, t, hostile=0.25)
        if input_conforms(v, t) is not None:
            continue  # unsatisfiable restriction somewhere: not a conforming value after all
        o = accept_obj(t, v)
        note(ctx, t, o)
        ctx.count("mon.b.conforming_native")
        if not o.accepted and o.rejected:
            sig = "b/conforming-native-rejected/" + "+".join(sorted(t.kinds() - {"optional"}))[:80]
            w = dict(hint=t.skel, value=short(v, 400), outcome=o.brief())
            # localise: which minimal sub-type/sub-value is rejected
            loc = localise_reject(t, v)
            if loc:
                sig = "b/conforming-native-rejected/" + loc[0]
                w["localised"] = loc[1]
            ctx.violation("accept", sig, w)
        check_a(ctx, t, o, "object", v)
        flush_contract(ctx, dict(hint=t.skel, value=short(v)))
        # same value as text (config string) when it has a JSON form
        inp = G.to_input(t, v)
        if jsonable(inp) and not t.has("any"):
            o2 = accept_cfg(t, inp)
            note(ctx, t, o2)
            ctx.count("mon.b.conforming_text")
            check_a(ctx, t, o2, "config", inp)
            flush_contract(ctx, dict(hint=t.skel, value=short(inp)))
    # (b') near misses
    for _ in range(3):
        nm = G.nearmiss(rng, t, allow_none=False)
        if nm is None:
            break
        bad, reason = nm
        o = accept_obj(t, bad)
        note(ctx, t, o)
        ctx.count("mon.b2.nearmiss")
        ctx.distinct(("nm", t.skel, reason))
        if o.accepted:
            ctx.violation("accept", f"b2/nearmiss-accepted/{reason}", dict(hint=t.skel, value=short(bad, 400), result=short(o.value)))
        check_a(ctx, t, o, "object", bad)
        flush_contract(ctx, dict(hint=t.skel, value=short(bad)))
    # castable re-spellings of a conforming value: only conformance of whatever is accepted is judged
    for _ in range(2):
        v = G.conforming(rng, t, hostile=0.0)
        if input_conforms(v, t) is not None:
            continue
        lv = lenient_variant(rng, t, G.to_input(t, v))
        if lv is None:
            break
        o = accept_obj(t, lv[0])
        note(ctx, t, o)
        ctx.count("mon.a.castable_respelling")
        ctx.count(f"st.respelling.{lv[1]}.{'accepted' if o.accepted else 'rejected'}")
        check_a(ctx, t, o, "object", lv[0])
        flush_contract(ctx, dict(hint=t.skel, value=short(lv[0]), respelled=lv[1]))
    # look-alike strings through argv: only conformance of whatever is accepted is judged
    for _ in range(3):
        s = lookalike(rng, t) if rng.random() < 0.6 else hostile_string(rng)[0]
        o = accept_argv(t, s)
        note(ctx, t, o)
        ctx.count("mon.a.lookalike_argv")
        check_a(ctx, t, o, "argv", s)
        flush_contract(ctx, dict(hint=t.skel, argv=s))


def lenient_variant(rng, t, inp):
    """The conforming input re-spelled at one position in a form the library may cast (numeral string for a number, int
    for float, bool or numeral-string key for an int key, member name for an enum...). Acceptance is not judged - the
    statement does not say which casts are made - only that whatever is accepted conforms. -> (input, label) or None"""
    import copy as _copy

    inp = _copy.deepcopy(inp)
    spots = []

    def walk(node, v, setter):
        k = node.kind
        if k in ("int", "rnum") and isinstance(v, int) and not isinstance(v, bool) and (k == "int" or node.extra[0] is int):
            spots.append((lambda: setter(str(v)), "numeral-string-for-int"))
            spots.append((lambda: setter(float(v)), "integral-float-for-int"))
        elif k in ("float",) or (k == "rnum" and node.extra[0] is float):
            if isinstance(v, float) and v.is_integer() and abs(v) < 1e15:
                spots.append((lambda: setter(int(v)), "int-for-float"))
            if isinstance(v, (int, float)) and not isinstance(v, bool):
                spots.append((lambda: setter(repr(v)), "numeral-string-for-float"))
        elif k == "bool" and isinstance(v, bool):
            spots.append((lambda: setter("true" if v else "false"), "word-for-bool"))
            spots.append((lambda: setter(int(v)), "int-for-bool"))
        elif k == "optional" and v is not None:
            walk(node.children[0], v, setter)
        elif k in ("list", "vtuple", "set") and isinstance(v, list):
            for i, x in enumerate(v):
                walk(node.children[0], x, lambda nv, i=i: v.__setitem__(i, nv))
        elif k == "tuple" and isinstance(v, list) and len(v) == len(node.children):
            for i, (x, c) in enumerate(zip(v, node.children)):
                walk(c, x, lambda nv, i=i: v.__setitem__(i, nv))
        elif k == "dict" and isinstance(v, dict):
            for kk, x in list(v.items()):
                walk(node.children[0], x, lambda nv, kk=kk: v.__setitem__(kk, nv))
                if node.extra is int and isinstance(kk, int) and not isinstance(kk, bool):
                    def rekey(new, kk=kk):
                        items = [(new if a == kk and type(a) is int else a, b) for a, b in v.items()]
                        v.clear()
                        v.update(items)
                    spots.append((lambda kk=kk, rekey=rekey: rekey(str(kk)), "numeral-string-key-for-int-key"))
                    if kk in (0, 1):
                        spots.append((lambda kk=kk, rekey=rekey: rekey(bool(kk)), "bool-key-for-int-key"))
            if node.extra is int and 1 not in v:
                spots.append((lambda: v.__setitem__(True, _copy.deepcopy(next(iter(v.values())))) if v else None, "bool-key-for-int-key"))

    box = [inp]
    walk(t, inp, lambda nv: box.__setitem__(0, nv))
    if not spots:
        return None
    f, label = rng.choice(spots)
    f()
    return box[0], label


def localise_reject(t, v):
    """descend to the smallest (sub-type, sub-value) that is still rejected although it conforms"""
    try:
        for c, x in subparts(t, v):
            if strict(x, c) is None:
                o = accept_obj(c, x)
                if o.rejected:
                    deeper = localise_reject(c, x)
                    return deeper or (c.kind + ":" + c.skel[:40], dict(hint=c.skel, value=short(x), outcome=o.brief()))
    except Exception:
        return None
    return (t.kind + ":" + t.skel[:40], dict(hint=t.skel, value=short(v)))


def subparts(t, v):
    k = t.kind
    if v is None:
        return
    if k == "optional":
        yield t.children[0], v
    elif k == "union":
        m = G.owner(t, v)
        if m is not None:
            yield m, v
    elif k in ("list", "vtuple", "set"):
        for x in v:
            yield t.children[0], x
    elif k == "dict":
        for x in v.values():
            yield t.children[0], x
    elif k == "tuple":
        for c, x in zip(t.children, v):
            yield c, x
    elif k == "dataclass":
        from jsonargparse import Namespace

        d = vars(v) if isinstance(v, Namespace) else v
        for name, ft in G.DATACLASS_FIELD_T.get(t.extra, {}).items():
            if isinstance(d, dict) and name in d:
                yield ft, d[name]


def case_container(ctx, rng):
    depth = 2 if ctx.tier == "quick" else 3
    kind = rng.choice(["list", "dict", "tuple", "vtuple", "set", "dictint"])
    if kind == "tuple":
        elems = [G.gen_type(rng, rng.choice([1, depth])) for _ in range(rng.choice([1, 2, 3]))]
        t = G.tuple_t(elems)
    else:
        e = G.gen_leaf(rng, "hashable") if kind == "set" else G.gen_type(rng, rng.choice([1, depth]))
        elems = [e]
        t = {"list": G.list_t, "dict": G.dict_t, "vtuple": G.vtuple_t, "set": G.set_t, "dictint": lambda c: G.dict_t(c, int)}[kind](e)
    if any(c.has("any", "class", "dataclass") for c in elems):
        return
    n = len(elems) if kind == "tuple" else rng.randrange(0, 4)
    cands = [elem_candidates(rng, elems[i if kind == "tuple" else 0], 1) for i in range(n)]
    if any(not c for c in cands):
        return
    vals = [c[0] for c in cands]
    if any(v is None for v in vals):
        return  # a bare None is "not given" for a top-level argument: the element parser cannot be asked about it
    if kind == "set" and any(isinstance(v, (list, dict)) for v in vals):
        pass  # JSON list form is used anyway
    if kind in ("dict", "dictint"):
        keys = rng.sample(["a", "b", "c", "d"] if kind == "dict" else [1, 2, 3, 4], len(vals))
        whole = dict(zip(keys, vals))
    else:
        whole = list(vals)
    for channel in ("object", "config"):
        if channel == "config" and not jsonable(whole):
            continue
        if channel == "config" and kind == "dictint":
            continue  # JSON object keys are strings; the int-key cast is not what (c) is about
        f = accept_obj if channel == "object" else accept_cfg
        ow = f(t, whole)
        if not (ow.accepted or ow.rejected):
            continue
        parts = []
        unknown = False
        for i, v in enumerate(vals):
            et = elems[i if kind == "tuple" else 0]
            oe = f(et, v)
            if not (oe.accepted or oe.rejected):
                unknown = True
                break
            if oe.accepted and oe.value.k is None and v is not None:
                unknown = True  # element parser turned the value into None (e.g. a 'null' string): list item differs
            parts.append(oe.accepted)
        if unknown:
            continue
        ctx.count(f"mon.c.container_vs_elements.{channel}")
        ctx.evaluation(("c", t.skel, tuple(parts), channel))
        note(ctx, t, ow)
        check_a(ctx, t, ow, channel, whole)
        flush_contract(ctx, dict(hint=t.skel, value=short(whole)))
        if ow.accepted != all(parts):
            bad_i = [i for i, a in enumerate(parts) if not a]
            et = elems[bad_i[0] if kind == "tuple" and bad_i else 0]
            sig = f"c/{kind}/{'accepted-with-rejected-element' if ow.accepted else 'rejected-with-accepted-elements'}/{et.kind}/{channel}"
            ctx.violation("compositional", sig, dict(hint=t.skel, value=short(whole, 400), elements_accepted=parts, whole=ow.brief()))


def case_union(ctx, rng):
    depth = 2 if ctx.tier == "quick" else 3
    n = rng.choice([2, 2, 3, 3, 4])
    members, seen = [], set()
    for _ in range(n * 2):
        c = G.gen_type(rng, rng.choice([1, 1, depth]), "full")
        if c.kind in ("union", "optional", "any", "class", "dataclass") or c.has("any", "class", "dataclass") or c.skel in seen:
            continue
        seen.add(c.skel)
        members.append(c)
        if len(members) == n:
            break
    if rng.random() < 0.3:
        # sibling containers: same constructor and arity, different leaf types, so that an earlier member can convert some
        # elements of a value before failing on another one (the later member must still see the value as given)
        pool = [G.INT, G.FLOAT, G.STR, G.BOOL] + G.RESTRICTED_NUM[:3]
        shape = rng.choice(["tuple", "tuple", "list", "dict", "set", "vtuple"])
        arity = rng.choice([2, 2, 3])
        members, seen = [], set()
        for _ in range(12):
            if shape == "tuple":
                c = G.tuple_t([rng.choice(pool) for _ in range(arity)])
            else:
                c = {"list": G.list_t, "dict": G.dict_t, "set": G.set_t, "vtuple": G.vtuple_t}[shape](rng.choice(pool))
            if c.skel not in seen:
                seen.add(c.skel)
                members.append(c)
            if len(members) == n:
                break
        ctx.count("st.union.sibling_containers")
        if rng.random() < 0.4 and shape != "set":
            # the same one level further in: the partly converting attempt works on an *inner* container of the value
            outer = rng.choice(["list", "dict", "tuple"])
            if rng.random() < 0.5:
                # an earlier member that converts the first item of the inner container (int -> float) before it fails on a
                # later one, next to a member that takes the value as given but would not take the converted item
                a, b = rng.choice([
                    (G.list_t(G.FLOAT), G.list_t(G.union_t([G.INT, G.STR]))),
                    (G.list_t(G.FLOAT), G.tuple_t([G.INT, G.BOOL])),
                    (G.list_t(G.FLOAT), G.tuple_t([G.INT, G.STR])),
                    (G.dict_t(G.FLOAT), G.dict_t(G.union_t([G.INT, G.STR]))),
                    (G.tuple_t([G.FLOAT, G.BOOL]), G.tuple_t([G.INT, G.STR])),
                ])
                members = [a, b]
                ctx.count("st.union.sibling_containers_nested.converting_first_item")
            members = [{"list": G.list_t, "dict": G.dict_t, "tuple": lambda m: G.tuple_t([m, G.INT])}[outer](m) for m in members]
            ctx.count("st.union.sibling_containers_nested")
    if rng.random() < 0.06:
        # a dataclass next to containers of class specs: the failing dataclass attempt must leave the specs (and their
        # dict_kwargs) as they were for the member after it, at parse time and when the result is validated
        members = [rng.choice(G.DATACLASSES), rng.choice([G.dict_t(G.CLASS_T), G.list_t(G.CLASS_T)])] + ([G.INT] if rng.random() < 0.5 else [])
        ctx.count("st.union.dataclass_next_to_class_containers")
    if len(members) < 2:
        return
    perms = list(itertools.permutations(range(len(members))))
    if ctx.tier == "quick" and len(perms) > 6:
        perms = [perms[0]] + rng.sample(perms[1:], 5)
    unions = [G.union_t([members[i] for i in p]) for p in perms]
    # candidate values
    cands = []
    for m in members:
        v = G.conforming(rng, m, hostile=0.2)
        if v is not None:
            cands.append(("object", G.to_input(m, v) if not jsonable(v) else v))
            if jsonable(v) and type(G.to_input(m, v)) is not type(v):
                cands.append(("object", G.to_input(m, v)))  # also in the form a config file gives it (list for tuple/set)
            if isinstance(G.to_input(m, v), str):
                cands.append(("argv", G.to_input(m, v)))
        nm = G.nearmiss(rng, m, allow_none=False)
        if nm is not None:
            cands.append(("object", nm[0]))
    for _ in range(3):
        cands.append(("argv", lookalike(rng, members[0])))
    cands.append(("argv", hostile_string(rng)[0]))
    cands.append(("object", rng.choice([1, 1.5, True, None, "abc", [1], {"a": 1}, "null", "1"])))
    if any(m.kind in ("int", "float", "rnum") for m in members):
        cands.append(("object", rng.choice([10**400, -(10**400)])))  # an int no float can hold: a member may fail in its own way
    for channel, v in cands:
        f = accept_obj if channel == "object" else accept_argv
        outs = [f(u, v) for u in unions]
        if any(not (o.accepted or o.rejected) for o in outs):
            if any(o.accepted for o in outs):
                # accepted in one order, an escaping exception in another: acceptance depends on the order
                esc = next(o for o in outs if not (o.accepted or o.rejected))
                i_acc, i_esc = [o.accepted for o in outs].index(True), outs.index(esc)
                ctx.violation("union", f"d/order-dependent/{channel}/{value_class(v, channel)}/escape-{esc.exc_type}-in-one-order", dict(members=[m.skel for m in members], value=short(v, 60), accepting=unions[i_acc].skel, escaping=unions[i_esc].skel, error=esc.brief()))
            continue
        single = [f(m, v) for m in members]
        if any(not (o.accepted or o.rejected) for o in single):
            continue
        ctx.count("mon.d.union_permutations", len(unions))
        ctx.count("mon.d.union_values")
        ctx.evaluation(("d", tuple(m.skel for m in members), channel, short(v, 80)))
        for u, o in zip(unions, outs):
            note(ctx, u, o)
            check_a(ctx, u, o, channel, v)
        flush_contract(ctx, dict(members=[m.skel for m in members], value=short(v)))
        acc = [o.accepted for o in outs]
        disj = any(o.accepted for o in single)
        mkinds = "+".join(sorted({m.kind for m in members}))
        vclass = value_class(v, channel)
        if len(set(acc)) > 1:
            i_acc, i_rej = acc.index(True), acc.index(False)
            first_rej = unions[i_rej].children[0].kind
            sig = f"d/order-dependent/{channel}/{vclass}/rejecting-order-starts-with-{first_rej}"
            ctx.violation("union", sig, dict(members=[m.skel for m in members], value=v, accepting=unions[i_acc].skel, rejecting=unions[i_rej].skel, error=outs[i_rej].brief()))
        elif acc[0] != disj and not any(m.kind == "dataclass" for m in members):
            # (a dataclass as the whole type of an argument is expanded into options of its own: a single-member parser
            # does not stand for the member inside a Union)
            sig = f"d/{'accepted-but-no-member-accepts' if acc[0] else 'rejected-although-member-accepts'}/{channel}/{vclass}/{mkinds}"
            which = [m.skel for m, o in zip(members, single) if o.accepted]
            ctx.violation("union", sig, dict(members=[m.skel for m in members], value=v, members_accepting=which, union_outcome=outs[0].brief()))


def case_two_step(ctx, rng):
    """a value built in two steps on one command line (a list and an append to it, a mapping and an item set in it) under a
    Union of sibling containers: the final value conforms to the hint and acceptance does not depend on the member order"""
    scen = rng.choice([
        ([G.list_t(G.INT), G.list_t(G.STR)], ['--k=["a"]', "--k+=1"]),
        ([G.list_t(G.INT), G.list_t(G.FLOAT)], ["--k=[1.5]", "--k+=2"]),
        ([G.list_t(G.INT), G.list_t(G.STR)], ["--k=[1, 2]", "--k+=x"]),
        ([G.list_t(G.FLOAT), G.list_t(G.BOOL)], ["--k=[true]", "--k+=false"]),
        ([G.dict_t(G.INT), G.dict_t(G.STR)], ['--k={"a": "1", "z": "s"}', "--k.b=t"]),
        ([G.dict_t(G.INT), G.dict_t(G.STR)], ['--k={"a": 1}', "--k.b=2"]),
        ([G.dict_t(G.FLOAT), G.dict_t(G.STR)], ['--k={"a": "1.5", "z": "s"}', "--k.z=t"]),
        ([G.dict_t(G.BOOL), G.dict_t(G.INT)], ['--k={"a": 1}', "--k.b=true"]),
    ])
    members, argv = scen
    outs = []
    for perm in itertools.permutations(members):
        u = G.union_t(list(perm))
        o = call(parser_for(u).parse_args, list(argv))
        outs.append((u, o))
        note(ctx, u, o)
        check_a(ctx, u, o, "argv-two-steps", argv)
    flush_contract(ctx, dict(members=[m.skel for m in members], argv=argv))
    ctx.count("mon.d.two_step_values")
    ctx.evaluation(("two-step", tuple(m.skel for m in members), tuple(argv)))
    acc = [o.accepted for _, o in outs if o.accepted or o.rejected]
    if len(set(acc)) > 1:
        ua = next(u for u, o in outs if o.accepted)
        ur = next((u, o) for u, o in outs if o.rejected)
        ctx.violation("union", f"d/order-dependent/argv-two-steps/{members[0].kind}/rejecting-order-starts-with-{ur[0].children[0].skel}", dict(members=[m.skel for m in members], argv=argv, accepting=ua.skel, rejecting=ur[0].skel, error=ur[1].brief()))


def value_class(v, channel):
    if channel == "argv" or isinstance(v, str):
        import yaml

        try:
            l = yaml.safe_load(v)
        except Exception:
            return "str:yaml-error"
        return "str-loads-as-" + type(l).__name__
    return "native-" + type(v).__name__


def run_shard(ctx):
    install_contract(ctx)
    if ctx.replay is not None:
        fam = (ctx.replay.get("witness") or {}).get("family") or ctx.replay.get("signature", "a")[0]
    for i, rng in ctx.cases():
        which = i % 4
        if ctx.replay is not None:
            which = ctx.replay["case"] % 4
        if i % 16 == 5:
            case_two_step(ctx, rng)
        elif which in (0, 1):
            case_basic(ctx, rng)
        elif which == 2:
            case_container(ctx, rng)
        else:
            case_union(ctx, rng)
        if i < 3:
            pass
    ctx.count("mon.a.internal_contract", POST["evals"])
    ctx.count("internal_contract_skipped_unregistered_hint", POST["skipped"])
    ctx.extra(icontract_postcondition_installed=POST["available"])
    ctx.sample(dict(example_hints=[t.skel for t in list(REG.values())[:12]]), limit=1)
