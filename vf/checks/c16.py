"""C16 — classes are instantiated in an order compatible with every link.

Part A (exhaustive): every digraph on <=4 nodes incl. self-loops (quick) / 5 nodes without self-loops
(thorough) is fed to the real DirectedGraph in several edge-insertion orders; an icontract postcondition
on get_topological_order plus a boundary check compare with an independent cycle test / order validator.
Part B (end to end): generated acyclic link graphs over <=4 class groups / subclass arguments, declared
in random orders, through real parsers and recording classes: constructor log order, exactly-once,
argument identity; cycle-closing links must be refused when added."""

from __future__ import annotations

import itertools
import time
from typing import List, Union

from jsonargparse import ArgumentParser, Namespace
from jsonargparse import _link_arguments as la

from vf.fixtures import zoo16
from vf.models.graph import has_cycle, order_ok
from vf.util import call, short

POST = {"evals": 0, "bad": None, "available": False}


def topo_post(self, result):
    POST["evals"] += 1
    nodes = list(self.nodes)
    edges = [(self.nodes[s], self.nodes[t]) for s, ts in self.edges_dict.items() for t in ts]
    r = order_ok(nodes, edges, list(result))
    if r and POST["bad"] is None:
        POST["bad"] = (r, nodes, edges, list(result))
    return True


def install_contract(ctx):
    try:
        import icontract

        class PostBroken(Exception):
            pass

        la.DirectedGraph.get_topological_order = icontract.ensure(topo_post, error=PostBroken)(la.DirectedGraph.get_topological_order)
        POST["available"] = True
    except Exception as ex:
        ctx.observe("probe_unavailable.icontract", f"{type(ex).__name__}: {ex}")


# ---------------------------------------------------------------------------------------------
# Part A
# ---------------------------------------------------------------------------------------------
def graph_case(ctx, n, mask, pairs, order_variant):
    edges = [pairs[b] for b in range(len(pairs)) if mask >> b & 1]
    if not edges:
        return None
    if order_variant == 1:
        edges = edges[::-1]
    elif order_variant == 2:
        edges = edges[1::2] + edges[0::2]
    names = [f"n{i}" for i in range(n)]
    g = la.DirectedGraph()
    for a, b in edges:
        g.add_edge(names[a], names[b])
    nodes = sorted({names[x] for e in edges for x in e})
    nedges = [(names[a], names[b]) for a, b in edges]
    cyc = has_cycle(nodes, nedges)
    ctx.count("mon.graph.evaluations")
    try:
        order = g.get_topological_order()
    except ValueError as ex:
        ctx.count("ev.graph.cyclic_reported")
        if not cyc:
            return ("graph/acyclic-reported-cyclic", dict(edges=nedges, error=str(ex)))
        return None
    except Exception as ex:
        return (f"graph/raised/{type(ex).__name__}", dict(edges=nedges, error=str(ex)))
    ctx.count("ev.graph.ordered")
    if cyc:
        return ("graph/cycle-not-reported", dict(edges=nedges, order=order))
    r = order_ok(nodes, nedges, order)
    if r:
        return ("graph/order-violates-edge", dict(edges=nedges, order=order, why=r))
    if POST["bad"]:
        bad, POST["bad"] = POST["bad"], None
        return ("graph/contract/order-violates-edge", dict(edges=nedges, bad=short(bad)))
    return None


def part_a(ctx, deadline):
    complete = True
    spaces = [(2, True), (3, True), (4, True)]
    if ctx.tier == "thorough":
        spaces.append((5, False))
    idx = 0
    total = 0
    for n, loops in spaces:
        pairs = [(a, b) for a in range(n) for b in range(n) if loops or a != b]
        nvariants = 3
        for mask in range(1, 1 << len(pairs)):
            idx += 1
            if idx % ctx.nshards != ctx.shard:
                continue
            if idx % 4096 == 0 and time.time() > deadline:
                complete = False
                break
            for ov in range(nvariants):
                r = graph_case(ctx, n, mask, pairs, ov)
                total += 1
                if r:
                    ctx.violation("digraph", r[0], r[1])
            ctx.distinct(("g", n, loops, mask))
        if not complete:
            break
    ctx.count("evaluations", total)
    ctx.extra(graphs_exhaustive_complete=complete, graph_spaces=[f"{n} nodes, self-loops={l}" for n, l in spaces])
    return complete


# ---------------------------------------------------------------------------------------------
# Part B
# ---------------------------------------------------------------------------------------------
NAME_POOLS = [
    ["data", "dataset", "model", "mod"],  # plain string prefixes of each other on purpose
    ["a", "ab", "abc", "b"],
    ["net", "net2", "opt", "optim"],
    ["x", "y", "z", "w"],
]


def fn2(a, b):
    return ("fn2", a, b)


def gen_case(rng):
    k = rng.choice([2, 3, 3, 4, 4])
    names = rng.sample(rng.choice(NAME_POOLS), k)
    kinds = [rng.choice(["group", "arg", "subargs"]) for _ in range(k)]
    perm = list(range(k))
    rng.shuffle(perm)  # perm = a topological order of the DAG we draw
    edges = []
    for i in range(k):
        for j in range(i + 1, k):
            if rng.random() < 0.55:
                edges.append((perm[i], perm[j]))
    if not edges:
        edges.append((perm[0], perm[1]))
    links = []
    holder = [rng.random() < 0.3 for _ in range(k)]
    for s, t in edges:
        links.append(dict(src=[(s, rng.choice(["obj", "attr"]))], tgt=t, param=f"f{s}", fn=rng.random() < 0.4, nested=holder[t] and rng.random() < 0.6))
    # sometimes merge two links with the same target into one multi-source link
    by_t = {}
    for l in links:
        by_t.setdefault(l["tgt"], []).append(l)
    for t, ls in by_t.items():
        if len(ls) >= 2 and rng.random() < 0.4:
            a, b = ls[0], ls[1]
            links.remove(b)
            a["src"] = a["src"] + b["src"]
            a["fn"] = "fn2"
            if a["nested"] != b["nested"]:
                a["nested"] = False
    # sinks of the DAG may be a list of class instances or a Union[bool, Class] argument: the link feeds every instance
    for i in range(k):
        if not holder[i] and not any(s == i for s, _ in edges) and rng.random() < 0.35:
            kinds[i] = rng.choice(["listarg", "listarg", "unionarg"])
    rng.shuffle(links)
    decl = list(range(k))
    rng.shuffle(decl)
    owns = [rng.randrange(1, 9) for _ in range(k)]
    return dict(k=k, names=names, kinds=kinds, links=links, decl=decl, owns=owns, edges=edges, fail_first=rng.random() < 0.3, topo=perm, holder=holder)


def node_class(case, i):
    return zoo16.HOLDERS[i] if case.get("holder", [False] * 4)[i] else zoo16.CLASSES[i]


def build(case, upto=None):
    p = ArgumentParser(exit_on_error=False)
    for i in case["decl"]:
        cls, name, kind = node_class(case, i), case["names"][i], case["kinds"][i]
        if kind == "group":
            p.add_class_arguments(cls, name)
        elif kind == "arg":
            p.add_argument(f"--{name}", type=cls)
        elif kind == "listarg":
            p.add_argument(f"--{name}", type=List[cls])
        elif kind == "unionarg":
            p.add_argument(f"--{name}", type=Union[bool, cls])
        else:
            p.add_subclass_arguments(cls, name)
    for l in case["links"][:upto]:
        add_link(p, case, l)
    return p


def link_args(case, l):
    srcs = []
    for s, how in l["src"]:
        srcs.append(case["names"][s] + (".attr" if how == "attr" else ""))
    t = l["tgt"]
    tgt = case["names"][t] + ("." if case["kinds"][t] == "group" else ".init_args.") + ("inner.init_args." if l.get("nested") else "") + l["param"]
    fn = None
    if l["fn"] == "fn2":
        fn = fn2
    elif l["fn"]:
        fn = zoo16.fn_tag
    return (tuple(srcs) if len(srcs) > 1 else srcs[0]), tgt, fn


def add_link(p, case, l):
    src, tgt, fn = link_args(case, l)
    p.link_arguments(src, tgt, compute_fn=fn, apply_on="instantiate")


def argv_for(case, bad_sink=None):
    argv = []
    for i in range(case["k"]):
        name, kind = case["names"][i], case["kinds"][i]
        own = 13 if i == bad_sink else case["owns"][i]
        cname = node_class(case, i).__name__
        if kind == "listarg":
            for _ in range(2):
                argv.append(f"--{name}+=vf.fixtures.zoo16.{cname}")
                argv.append(f"--{name}.init_args.own={own}")
            continue
        if kind == "group":
            argv.append(f"--{name}.own={own}")
            if cname.startswith("H"):
                argv.append(f"--{name}.inner=vf.fixtures.zoo16.N{i}")
        else:
            argv.append(f"--{name}=vf.fixtures.zoo16.{cname}")
            argv.append(f"--{name}.init_args.own={own}")
            if cname.startswith("H"):
                argv.append(f"--{name}.init_args.inner=vf.fixtures.zoo16.N{i}")
    return argv


def e2e_case(ctx, case):
    key = (case["k"], tuple(case["kinds"]), tuple(sorted(case["edges"])), tuple(case["decl"]), short(case["links"], 500))
    ctx.evaluation(("e2e",) + key)
    o = call(build, case)
    if not o.accepted:
        return ("e2e/acyclic-links-refused", dict(case=case, outcome=o.brief()))
    p = o.value
    ctx.count("mon.e2e.parsers")
    o = call(p.parse_args, argv_for(case))
    if not o.accepted:
        return ("e2e/parse-failed", dict(case=case, outcome=o.brief()))
    cfg = o.value
    if case["fail_first"]:
        # a sink of the DAG whose constructor raises: instantiate fails after earlier links were applied
        sink = case["topo"][-1]
        ob = call(p.parse_args, argv_for(case, bad_sink=sink))
        if ob.accepted:
            zoo16.LOG.clear()
            of = call(p.instantiate_classes, ob.value)
            ctx.count("ev.e2e.failed_instantiate_first" if not of.accepted else "ev.e2e.bad_sink_did_not_fail")
    zoo16.LOG.clear()
    o = call(p.instantiate_classes, cfg)
    if not o.accepted:
        nest = "/with-nested-target" if any(l.get("nested") for l in case["links"]) else ""
        return (f"e2e/instantiate-failed/{o.exc_type}{nest}", dict(case=case, outcome=o.brief(), tb=o.tb))
    init = o.value
    log = list(zoo16.LOG)
    ctx.count("mon.e2e.instantiations")
    names = [x[0] for x in log]
    holders = case.get("holder", [False] * 4)
    for i in range(case["k"]):
        for cn in [node_class(case, i).__name__] + ([f"N{i}"] if holders[i] else []):
            c = names.count(cn)
            if case["kinds"][i] == "listarg":
                ctx.count("st.e2e.list_of_instances_as_target")
                c = 1 if c == 2 else (0 if c < 2 else c)
            if c != 1:
                return (f"e2e/constructed-{'twice' if c > 1 else 'never'}{'/nested' if cn.startswith('N') else ''}", dict(case=case, log=names))
    pos = {}
    for idx, n in enumerate(names):
        pos.setdefault(n, idx)  # first construction of the class (a list argument builds several)
    for i in range(case["k"]):
        if holders[i]:
            ctx.count("st.e2e.holder_components")
            if pos[f"N{i}"] > pos[f"H{i}"]:
                return ("e2e/holder-built-before-its-nested-object", dict(case=case, log=names))
    for l in case["links"]:
        t = l["tgt"]
        tobj = init[case["names"][t]]
        tobjs = [tobj]
        if case["kinds"][t] == "listarg":
            if not isinstance(tobj, list) or len(tobj) != 2:
                return ("e2e/target-list-not-instantiated", dict(case=case, got=short(tobj)))
            tobjs, tobj = tobj, tobj[0]
        if case["kinds"][t] == "unionarg":
            ctx.count("st.e2e.union_typed_target")
        if not isinstance(tobj, node_class(case, t)):
            return ("e2e/target-not-instantiated", dict(case=case, got=short(tobj)))
        tname = node_class(case, t).__name__
        if l.get("nested"):
            ctx.count("st.e2e.links_to_nested_target")
            tobj, tname = tobj.inner, f"N{t}"
            if not isinstance(tobj, zoo16.NESTED[t]):
                return ("e2e/nested-target-not-instantiated", dict(case=case, got=short(tobj)))
        vals = []
        for s, how in l["src"]:
            ctx.count("mon.e2e.edges_checked")
            if pos[node_class(case, s).__name__] > pos[tname]:
                return (f"e2e/target-built-before-source{'/nested-target' if l.get('nested') else ''}", dict(case=case, log=names, edge=(s, t)))
            sobj = init[case["names"][s]]
            if not isinstance(sobj, node_class(case, s)):
                return ("e2e/source-not-instantiated", dict(case=case, got=short(sobj)))
            vals.append(sobj if how == "obj" else sobj.attr)
        for one in (tobjs if not l.get("nested") else [tobj]):
            got = one.kw[l["param"]]
            if l["fn"] == "fn2":
                ok = isinstance(got, tuple) and len(got) == 3 and got[0] == "fn2" and _same_obj(got[1], vals[0]) and _same_obj(got[2], vals[1])
            elif l["fn"]:
                ok = isinstance(got, tuple) and len(got) == 2 and got[0] == "fn" and _same_obj(got[1], vals[0])
            else:
                ok = _same_obj(got, vals[0])
            if not ok:
                return (f"e2e/target-parameter-wrong-value{'/' + case['kinds'][t] if case['kinds'][t] in ('listarg', 'unionarg') else ''}", dict(case=case, link=l, got=short(got), expected=short(vals)))
    # own values must be what was configured (no cross-talk between components)
    for i in range(case["k"]):
        objs = init[case["names"][i]]
        for one in objs if isinstance(objs, list) else [objs]:
            if one.kw["own"] != case["owns"][i]:
                return ("e2e/own-parameter-wrong", dict(case=case, i=i, got=one.kw["own"]))
    # instantiating again gives fresh objects, same order rules (exactly once per call)
    zoo16.LOG.clear()
    o2 = call(p.instantiate_classes, cfg)
    if not o2.accepted or len(zoo16.LOG) != case["k"] + sum(holders[: case["k"]]) + sum(1 for kd in case["kinds"] if kd == "listarg"):
        return ("e2e/second-instantiate-differs", dict(case=case, outcome=o2.brief(), log=[x[0] for x in zoo16.LOG]))
    # cycle probes on fresh parsers: reversed edges of the transitive closure must be refused
    reach = _closure(case["k"], case["edges"])
    probes = [(b, a) for a, b in reach if case["kinds"][b] not in ("listarg", "unionarg")]
    if probes:
        b, a = probes[ctx.case_rng(ctx.case_index or 0, "probe").randrange(len(probes))]
        fresh = build(case)
        lk = dict(src=[(b, "obj")], tgt=a, param=f"f{b}", fn=False)
        oc = call(add_link, fresh, case, lk)
        ctx.count("mon.e2e.cycle_probes")
        if oc.accepted:
            return ("e2e/cycle-closing-link-accepted", dict(case=case, link=lk))
        if holders[a] and case["kinds"][a] not in ("listarg", "unionarg"):
            # the same cycle closed through a parameter of the object nested in the holder
            lkn = dict(lk, nested=True)
            on = call(add_link, build(case), case, lkn)
            ctx.count("mon.e2e.cycle_probes_through_nested_target")
            if on.accepted:
                return ("e2e/cycle-closing-link-accepted/nested-target", dict(case=case, link=lkn))
        if not (oc.kind == "raise" and oc.exc_type == "ValueError"):
            return (f"e2e/cycle-closing-link-wrong-error/{oc.exc_type}", dict(case=case, link=lk, outcome=oc.brief()))
        # self link
        os_ = call(add_link, build(case), case, dict(src=[(a, "obj")], tgt=a, param=f"f{(a + 1) % 4}", fn=False))
        if os_.accepted:
            return ("e2e/self-link-accepted", dict(case=case, node=a))
        if holders[a] and case["kinds"][a] == "group":
            # a class group feeding a parameter of the object nested in itself: the group is built after its nested object
            osn = call(add_link, build(case), case, dict(src=[(a, "attr")], tgt=a, param=f"f{(a + 1) % 4}", fn=False, nested=True))
            ctx.count("mon.e2e.self_link_through_nested_target")
            if osn.accepted:
                return ("e2e/self-link-accepted/group-feeding-its-own-nested-object", dict(case=case, node=a))
        # the refusal must not have broken the parser: what was accepted before is still an acyclic set
        o3 = call(fresh.parse_args, argv_for(case))
        zoo16.LOG.clear()
        o4 = call(fresh.instantiate_classes, o3.value) if o3.accepted else o3
        ctx.count("mon.e2e.after_refusal")
        if not o4.accepted:
            return (f"e2e/parser-unusable-after-refused-link/{o4.exc_type}", dict(case=case, link=lk, outcome=o4.brief()))
    return None


DEEP_LINKS = {
    # name: (source key, target key, reads the value from the instantiated result, reads what the target received)
    "L1": ("src.attr", "top.mid.init_args.leaf.init_args.f0", lambda r: r.src.attr, lambda r: r.top.mid.leaf.kw["f0"], "C0", "Leaf"),
    "L2": ("top.mid.attr", "o1.f1", lambda r: r.top.mid.attr, lambda r: r.o1.kw["f1"], "Mid", "C1"),
    "L3": ("top.attr", "o2.f2", lambda r: r.top.attr, lambda r: r.o2.kw["f2"], "Top", "C2"),
    "L4": ("src", "top.mid.init_args.f1", lambda r: r.src, lambda r: r.top.mid.kw["f1"], "C0", "Mid"),
    "L5": ("o1.attr", "o2.f3", lambda r: r.o1.attr, lambda r: r.o2.kw["f3"], "C1", "C2"),
}


def deep_case(ctx, rng):
    """Targets nested two levels deep and sources nested one level inside another component, over class groups
    declared in every order with the links added in every order: an acyclic set (src -> top's nested objects, top's nested
    objects -> o1, top -> o2, o1 -> o2)."""
    chosen = [n for n in DEEP_LINKS if rng.random() < 0.6] or ["L1", "L2"]
    rng.shuffle(chosen)
    groups = [("src", zoo16.C0), ("top", zoo16.Top), ("o1", zoo16.C1), ("o2", zoo16.C2)]
    rng.shuffle(groups)
    ctx.evaluation(("deep", tuple(chosen), tuple(g for g, _ in groups)))
    ctx.count("mon.e2e.deep_nesting_cases")
    w = dict(shape="deep-nesting", links=[DEEP_LINKS[n][:2] for n in chosen], declared=[g for g, _ in groups])
    p = ArgumentParser(exit_on_error=False)
    for g, cls in groups:
        p.add_class_arguments(cls, g)
    for n in chosen:
        o = call(p.link_arguments, DEEP_LINKS[n][0], DEEP_LINKS[n][1], apply_on="instantiate")
        if not o.accepted:
            return ("e2e/acyclic-links-refused/deep-nesting", dict(w, link=n, outcome=o.brief()))
    o = call(p.parse_object, {"top": {"mid": {"class_path": "vf.fixtures.zoo16.Mid", "init_args": {"leaf": {"class_path": "vf.fixtures.zoo16.Leaf"}}}}})
    if not o.accepted:
        return ("e2e/parse-failed/deep-nesting", dict(w, outcome=o.brief()))
    zoo16.LOG.clear()
    oi = call(p.instantiate_classes, o.value)
    if not oi.accepted:
        kinds = "+".join(sorted({("nested-source" if DEEP_LINKS[n][0].count(".") > 1 else "plain-source") for n in chosen} | {("deep-target" if DEEP_LINKS[n][1].count("init_args") > 1 else "nested-target" if "init_args" in DEEP_LINKS[n][1] else "plain-target") for n in chosen}))
        return (f"e2e/instantiate-failed/{oi.exc_type}/deep-nesting/{kinds}", dict(w, outcome=oi.brief(), tb=oi.tb))
    r = oi.value
    names = [x[0] for x in zoo16.LOG]
    for cn in ("C0", "C1", "C2", "Top", "Mid", "Leaf"):
        if names.count(cn) != 1:
            return (f"e2e/constructed-{'twice' if names.count(cn) > 1 else 'never'}/deep-nesting", dict(w, log=names))
    for n in chosen:
        _, _, src_val, got_val, scls, tcls = DEEP_LINKS[n]
        ctx.count("mon.e2e.deep_edges_checked")
        if names.index(scls) > names.index(tcls):
            return (f"e2e/target-built-before-source/deep-nesting/{'nested-source' if DEEP_LINKS[n][0].count('.') > 1 else 'deep-target' if DEEP_LINKS[n][1].count('init_args') > 1 else 'other'}", dict(w, link=n, log=names))
        if not _same_obj(got_val(r), src_val(r)):
            return (f"e2e/target-parameter-wrong-value/deep-nesting", dict(w, link=n, got=short(got_val(r)), expected=short(src_val(r))))
    return None


def _same_obj(a, b):
    if isinstance(b, zoo16.Base):
        return a is b
    return a == b and type(a) is type(b)


def _closure(k, edges):
    reach = set(edges)
    changed = True
    while changed:
        changed = False
        for a, b in list(reach):
            for c, d in list(reach):
                if b == c and (a, d) not in reach:
                    reach.add((a, d))
                    changed = True
    return sorted(reach)


def run_shard(ctx):
    install_contract(ctx)
    if ctx.replay is not None:
        w = ctx.replay.get("witness") or {}
        if "case" in w:
            case = w["case"]
            case["links"] = [dict(l, src=[tuple(s) for s in l["src"]]) for l in case["links"]]
            case["edges"] = [tuple(e) for e in case["edges"]]
            ctx.case_index = ctx.replay.get("case")
            r = e2e_case(ctx, case)
            if r:
                ctx.violation("e2e", r[0], r[1])
        elif "edges" in w:
            g = la.DirectedGraph()
            for a, b in w["edges"]:
                g.add_edge(a, b)
            nodes = sorted({x for e in w["edges"] for x in e})
            cyc = has_cycle(nodes, [tuple(e) for e in w["edges"]])
            o = call(g.get_topological_order)
            ctx.evaluation("replay")
            if o.accepted == cyc or (o.accepted and order_ok(nodes, [tuple(e) for e in w["edges"]], o.value)):
                ctx.violation("digraph", ctx.replay.get("signature"), dict(edges=w["edges"], outcome=o.brief()))
        return
    part_a(ctx, ctx.t0 + ctx.budget * 0.55)
    for i, rng in ctx.cases():
        if i % 4 == 3:
            try:
                r = deep_case(ctx, rng)
            finally:
                zoo16.LOG.clear()
            if r:
                ctx.violation("e2e", r[0], r[1])
            continue
        case = gen_case(rng)
        if i < 2:
            ctx.sample(dict(part="B", names=case["names"], kinds=case["kinds"], links=[link_args(case, l)[:2] for l in case["links"]], decl=case["decl"]))
        try:
            r = e2e_case(ctx, case)
        finally:
            zoo16.LOG.clear()
        if r:
            ctx.violation("e2e", r[0], r[1])
    ctx.count("mon.contract.topological_order", POST["evals"])
    ctx.extra(icontract_postcondition_installed=POST["available"])
