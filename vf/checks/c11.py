"""C11 — Namespace behaves as a nested mapping addressed by dotted keys.

Monitor: the real jsonargparse.Namespace is driven through operation histories while a nested-dict
reference model (vf.models.nsmodel) is updated in lock-step; after the steps every *observer* the
statement lists (reading, membership, items/keys/values, as_dict, clone, equality, conversions) is
compared with the model, plus model-free self-consistency relations. An icontract class invariant on
the real class checks the storage convention (clash mark) after every public method call."""

from __future__ import annotations

import itertools

from jsonargparse import Namespace, dict_to_namespace, namespace_to_dict
from jsonargparse import _namespace as nsmod

from vf.models.nsmodel import B, UNSPEC, Model, valid_key
from vf.util import diff_class, same, short

ORD = ["a", "b", "c"]
CLASH = ["items", "keys", "get", "update", "pop", "clone", "values", "as_dict"]
SENT = object()

INV = {"evals": 0, "bad": None, "available": False}


# ---------------------------------------------------------------------------------------------
# storage invariant (icontract class invariant; records, never raises)
# ---------------------------------------------------------------------------------------------
def storage_ok(ns, _top=True):
    d = ns.__dict__
    for k, v in d.items():
        if not isinstance(k, str) or k == "" or "." in k or " " in k:
            return f"bad stored key {k!r}"
        bare = k[1:] if k[0] == nsmod.clash_mark else k
        if (bare in nsmod.clash_names) != (k[0] == nsmod.clash_mark):
            return f"clash mark wrong on stored key {k!r}"
        if bare != k and bare in d:
            return f"bare and marked duplicate {bare!r}"
        if isinstance(v, Namespace):
            r = storage_ok(v, False)
            if r:
                return r
    return None


def storage_invariant(self):
    INV["evals"] += 1
    r = storage_ok(self)
    if r and INV["bad"] is None:
        INV["bad"] = r
    return True


def install_invariant(ctx):
    try:
        import icontract

        class InvBroken(Exception):
            pass

        icontract.invariant(storage_invariant, error=InvBroken)(Namespace)
        INV["available"] = True
    except Exception as ex:  # icontract missing -> invariant evaluated by the harness after each step
        ctx.observe("probe_unavailable.icontract", f"{type(ex).__name__}: {ex}")


# ---------------------------------------------------------------------------------------------
# value specs -> (real value, model value); fresh objects on every call
# ---------------------------------------------------------------------------------------------
def build_value(spec):
    kind, v = spec
    if kind == "ns":
        return build_ns(v), build_branch(v)
    if kind == "list":
        return list(v), list(v)
    if kind == "dict":
        return dict(v), dict(v)
    return v, v


def build_ns(tree):
    ns = Namespace()
    for k, v in tree.items():
        if isinstance(v, dict) and v.get("__ns__", True) and "__leaf__" not in v:
            ns[k] = build_ns(v)
        else:
            ns[k] = v["__leaf__"] if isinstance(v, dict) else v
    return ns


def build_branch(tree):
    b = B()
    for k, v in tree.items():
        if isinstance(v, dict) and "__leaf__" not in v:
            b[k] = build_branch(v)
        else:
            b[k] = v["__leaf__"] if isinstance(v, dict) else v
    return b


# ---------------------------------------------------------------------------------------------
# applying one op to both sides
# ---------------------------------------------------------------------------------------------
def apply_real(ns, op):
    """-> (kind, value, new_ns). kind in ok/raise."""
    name = op[0]
    try:
        if name == "set":
            ns[op[1]] = op[2]
            return "ok", None, ns
        if name == "setattr":
            setattr(ns, op[1], op[2])
            return "ok", None, ns
        if name == "del":
            del ns[op[1]]
            return "ok", None, ns
        if name == "delattr":
            delattr(ns, op[1])
            return "ok", None, ns
        if name == "pop":
            return "ok", ns.pop(op[1], op[2]), ns
        if name == "pop1":
            return "ok", ns.pop(op[1]), ns
        if name == "update":
            r = ns.update(op[1], op[2], op[3]) if op[3] is not None else ns.update(op[1], op[2])
            return "ok", ("self" if r is ns else r), ns
        if name == "clone":
            return "ok", None, ns.clone()
        if name == "get":
            return "ok", ns.get(op[1], op[2]), ns
        if name == "in":
            return "ok", op[1] in ns, ns
        if name == "getitem":
            return "ok", ns[op[1]], ns
    except Exception as ex:
        return "raise", ex, ns
    raise AssertionError(name)


def apply_model(m, op, mval):
    name = op[0]
    if name in ("set", "setattr"):
        return m.setitem(op[1], mval)
    if name in ("del", "delattr"):
        return m.delitem(op[1])
    if name == "pop":
        return m.pop(op[1], op[2])
    if name == "pop1":
        return m.pop(op[1], None)
    if name == "update":
        if isinstance(mval, B):
            return m.update_ns(mval, op[2], bool(op[3]))
        return m.update_value(mval, op[2], bool(op[3]))
    if name == "clone":
        return ("ok", None)
    if name == "get":
        return m.get(op[1], op[2])
    if name == "in":
        return m.contains(op[1])
    if name == "getitem":
        return m.getitem(op[1])
    raise AssertionError(name)


def val_equal(real, mv):
    """real value vs model value (model branches <-> Namespaces)."""
    if isinstance(mv, B):
        if not isinstance(real, Namespace):
            return False
        return same(real.as_dict(), Model(mv).as_dict()) is None and not any(isinstance(v, dict) and False for v in [])
    if isinstance(real, Namespace):
        return False
    return same(real, mv) is None


def has_clash(key):
    import re

    return isinstance(key, str) and any(s in CLASH for s in re.split(r"[^A-Za-z_]+", key))


def step(ctx, ns, m, spec_op, layer="L1"):
    """Executes one op spec on both sides. -> (ns, verdict) verdict None | 'unspec' | (sig, detail)"""
    name = spec_op[0]
    rv = mv = None
    op = spec_op
    if name in ("set", "setattr"):
        rv, mv = build_value(spec_op[2])
        op = (name, spec_op[1], rv)
    elif name == "update":
        rv, mv = build_value(spec_op[1])
        op = (name, rv, spec_op[2], spec_op[3])
    before = m.copy()
    exp = apply_model(m, op, mv)
    if exp == UNSPEC:
        return ns, "unspec"
    if has_clash(str(spec_op[1:3])):
        ctx.count("st.clash_key_ops")
    kind, val, ns2 = apply_real(ns, op)
    ctx.count(f"ev.{name}.{kind}")
    cl = "clash" if has_clash(str(spec_op[1:3])) else "plain"
    if exp[0] == "ok":
        if kind != "ok":
            return ns2, (f"{layer}/{name}/raised-on-defined-op/{type(val).__name__}/{cl}", f"op={short(spec_op)} raised {type(val).__name__}: {val}")
        if name in ("pop", "pop1", "get", "getitem"):
            if not val_equal(val, exp[1]):
                return ns2, (f"{layer}/{name}/wrong-result/{cl}", f"op={short(spec_op)} returned {short(val)} model {short(exp[1])}")
        elif name == "in":
            if val is not exp[1]:
                return ns2, (f"{layer}/in/wrong-result/{cl}", f"op={short(spec_op)} returned {val} model {exp[1]}")
        elif name == "update":
            if val != "self":
                return ns2, (f"{layer}/update/does-not-return-self", f"op={short(spec_op)}")
    else:  # must raise and leave state unchanged
        if kind == "ok":
            return ns2, (f"{layer}/{name}/undefined-op-accepted/{cl}", f"op={short(spec_op)} returned {short(val)} but is not defined on a nested dict")
        if exp[1] is KeyError and not isinstance(val, KeyError) and not (name == "delattr" and isinstance(val, AttributeError)):
            # (deleting a missing *attribute* raises AttributeError by Python's own convention)
            return ns2, (f"{layer}/{name}/wrong-exception/{type(val).__name__}/{cl}", f"op={short(spec_op)} raised {type(val).__name__}: {val}; KeyError documented")
        if exp[1] is None:
            ctx.count(f"ev.{name}.raise.{type(val).__name__}")
        m.root = before.root
    return ns2, None


# ---------------------------------------------------------------------------------------------
# observers
# ---------------------------------------------------------------------------------------------
def compare_observers(ctx, ns, m, deep=True):
    """-> None or (signature, detail)."""
    n = 0
    exp_dict = m.as_dict()
    got = ns.as_dict()
    n += 1
    d = same(got, exp_dict)
    if d:
        return ("L1/as_dict/mismatch", f"as_dict {short(got)} model {short(exp_dict)} at {d}")
    for br in (False, True):
        exp_items = m.leaves(branches=br)
        got_items = list(ns.items(br)) if br else list(ns.items())
        n += 1
        if [k for k, _ in got_items] != [k for k, _ in exp_items]:
            return (f"L1/items/keys-mismatch/branches={br}", f"items keys {[k for k, _ in got_items]} model {[k for k, _ in exp_items]}")
        for (k, gv), (_, ev) in zip(got_items, exp_items):
            if not val_equal(gv, ev):
                return (f"L1/items/value-mismatch/branches={br}", f"key {k}: {short(gv)} model {short(ev)}")
        gk = list(ns.keys(br))
        gvs = list(ns.values(br))
        n += 2
        if gk != [k for k, _ in got_items]:
            return (f"L1/keys/disagrees-with-items/branches={br}", f"{gk} vs {[k for k, _ in got_items]}")
        if len(gvs) != len(got_items) or any(a is not b for a, (_, b) in zip(gvs, got_items)):
            return (f"L1/values/disagrees-with-items/branches={br}", f"{short(gvs)}")
    if any("​" in k for k, _ in ns.items(True)):
        return ("L1/items/clash-mark-visible", short(list(ns.keys(True))))
    # derived views: flat namespace, keys sorted by depth
    leaf_items = list(ns.items())
    flat = vars(ns.as_flat())
    n += 1
    if list(flat) != [k for k, _ in leaf_items] or any(flat[k] is not v for k, v in leaf_items):
        return ("L1/as_flat/disagrees-with-items", f"{short(flat)} vs {short(leaf_items)}")
    for br in (False, True):
        sk = ns.get_sorted_keys(br)
        n += 1
        depths = [k.count(".") for k in sk]
        if depths != sorted(depths, reverse=True):
            return (f"L1/get_sorted_keys/not-by-descending-depth/branches={br}", short(sk))
        if len(set(sk)) != len(sk) or not {k for k, _ in leaf_items if not k.split(".")[-1].startswith("__")} <= set(sk) or not set(sk) <= set(ns.keys(True)):
            return (f"L1/get_sorted_keys/wrong-key-set/branches={br}", f"{short(sk)} leaves {short([k for k, _ in leaf_items])}")
    n += 1
    if bool(ns) != bool(exp_dict):
        return ("L1/bool/mismatch", f"bool={bool(ns)} model={bool(exp_dict)}")
    # present keys
    all_paths = m.leaves(branches=True)
    for k, ev in all_paths:
        n += 4
        cl = "clash" if has_clash(k) else "plain"
        if k not in ns:
            return (f"L1/in/present-key-missing/{cl}", f"{k!r} not in ns; model has it")
        try:
            gv = ns[k]
        except Exception as ex:
            return (f"L1/getitem/raised-for-present-key/{cl}", f"ns[{k!r}] raised {type(ex).__name__}: {ex}")
        if not val_equal(gv, ev):
            return (f"L1/getitem/wrong-value/{cl}", f"ns[{k!r}]={short(gv)} model {short(ev)}")
        g2 = ns.get(k, SENT)
        if g2 is not gv and not (isinstance(gv, Namespace) and g2 == gv):
            return (f"L1/get/disagrees-with-getitem/{cl}", f"get({k!r})={short(g2)} []={short(gv)}")
        if k not in set(ns.keys(True)):
            return (f"L1/keys/present-key-missing/{cl}", k)
        try:
            pv, parent, leaf = ns.get_value_and_parent(k)
        except Exception as ex:
            return (f"L1/get_value_and_parent/raised-for-present-key/{cl}", f"{k!r}: {type(ex).__name__}: {ex}")
        if pv is not gv or not isinstance(parent, Namespace) or parent[leaf] is not gv:
            return (f"L1/get_value_and_parent/disagrees-with-getitem/{cl}", f"{k!r}: {short(pv)} parent {short(parent)} leaf {leaf!r}")
        # step by step addressing
        parts = k.split(".")
        if len(parts) > 1:
            n += 1
            cur = ns
            try:
                for p in parts:
                    cur = cur[p]
            except Exception as ex:
                return (f"L1/stepwise/raised/{cl}", f"step-by-step {parts} raised {type(ex).__name__}: {ex}")
            if cur is not gv:
                return (f"L1/stepwise/differs-from-dotted/{cl}", f"{k}: {short(cur)} vs {short(gv)}")
        if len(parts) == 1 and k not in CLASH:
            n += 1
            if getattr(ns, k, SENT) is not gv:
                return ("L1/getattr/differs-from-getitem", k)
    # absent keys
    absent = set()
    names = ORD + CLASH
    present = {k for k, _ in all_paths}
    for nm in names[:6]:
        absent.add(nm)
    for k, ev in all_paths:
        if not isinstance(ev, dict) or isinstance(ev, B):
            absent.add(k + ".zz")
            absent.add(k + ".items")
    for k in sorted(absent - present):
        r = m.contains(k)
        if r == UNSPEC or r[1]:
            continue
        n += 3
        cl = "clash" if has_clash(k) else "plain"
        if k in ns:
            return (f"L1/in/absent-key-present/{cl}", f"{k!r} in ns; model lacks it")
        if ns.get(k, SENT) is not SENT:
            return (f"L1/get/absent-key-has-value/{cl}", f"get({k!r})={short(ns.get(k))}")
        try:
            ns[k]
            return (f"L1/getitem/absent-key-no-error/{cl}", k)
        except KeyError:
            pass
        except Exception as ex:
            return (f"L1/getitem/wrong-exception/{type(ex).__name__}/{cl}", f"ns[{k!r}] raised {type(ex).__name__}")
    # invalid keys
    for k in ("a b", "a..b", ".a", "a.", ""):
        n += 2
        if k in ns:
            return ("L1/in/invalid-key-true", repr(k))
        try:
            ns[k]
            return ("L1/getitem/invalid-key-no-error", repr(k))
        except KeyError:
            pass
        except Exception as ex:
            return (f"L1/getitem/invalid-key-wrong-exception/{type(ex).__name__}", repr(k))
    if deep:
        # clone: equal, independent
        c = ns.clone()
        n += 3
        if not (c == ns) or same(c.as_dict(), exp_dict):
            return ("L1/clone/not-equal", f"{short(c)} vs {short(ns)}")
        shared = _shared_namespaces(ns, c)
        if shared:
            return ("L1/clone/shares-namespace-node", shared)
        c["zz_probe"] = 1
        for k, ev in all_paths:
            if isinstance(ev, B):
                c[k + ".zz_probe"] = 1
        if same(ns.as_dict(), exp_dict):
            return ("L1/clone/mutation-leaks-into-original", short(ns))
        # equality with a namespace rebuilt from the model in another insertion order
        rebuilt = Namespace()
        for k, ev in reversed(m.leaves(branches=True)):
            if isinstance(ev, B):
                if not ev and k not in rebuilt:
                    rebuilt[k] = Namespace()
            else:
                rebuilt[k] = ev
        n += 2
        if not (rebuilt == ns) or not (ns == rebuilt):
            return ("L1/eq/rebuilt-not-equal", f"{short(rebuilt)} vs {short(ns)}")
        other = rebuilt.clone()
        other["zz_other"] = 0
        if other == ns:
            return ("L1/eq/different-equal", short(other))
        if not m.has_dict_leaf():
            n += 3
            d2n = dict_to_namespace(exp_dict)
            if not (d2n == ns):
                return ("L1/dict_to_namespace/not-equal", f"{short(d2n)} vs {short(ns)}")
            n2d = namespace_to_dict(ns)
            if same(n2d, exp_dict):
                return ("L1/namespace_to_dict/mismatch", f"{short(n2d)} vs {short(exp_dict)}")
            if all(not isinstance(v, B) for v in m.root.values()):
                nd = Namespace(exp_dict)
                if not (nd == ns):
                    return ("L1/Namespace(dict)/not-equal", f"{short(nd)} vs {short(ns)}")
    ctx.count("mon.L1.observer_comparisons", n)
    if not INV["available"]:
        INV["evals"] += 1
        r = storage_ok(ns)
        if r and INV["bad"] is None:
            INV["bad"] = r
    return None


def _shared_namespaces(a, b):
    ids = set()

    def rec(x):
        if isinstance(x, Namespace):
            ids.add(id(x))
            for v in vars(x).values():
                rec(v)

    rec(a)
    found = []

    def rec2(x, path):
        if isinstance(x, Namespace):
            if id(x) in ids:
                found.append(path or "<root>")
            for k, v in vars(x).items():
                rec2(v, f"{path}.{k}" if path else k)

    rec2(b, "")
    return found[0] if found else None


# ---------------------------------------------------------------------------------------------
# histories
# ---------------------------------------------------------------------------------------------
def alphabet(rot):
    """14 concrete operations over names X (ordinary), Y (method-name clash), Z; rotated by `rot`."""
    X = ORD[rot % 2]
    Y = CLASH[rot % len(CLASH)]
    Z = (ORD + CLASH)[(rot // 2 + 2) % 10]
    if rot % 3 == 2:
        X, Y = Y, X  # clash name at the top level
    return [
        ("set", X, ("int", 1)),
        ("set", f"{X}.{Y}", ("str", "v2")),
        ("set", f"{X}.{Y}.{Z}", ("list", [3, 4])),
        ("set", Y, ("ns", {Z: 5})),
        ("set", f"{Y}.{X}", ("dict", {"k": 6})),
        ("setattr", Y, ("tuple", (7, "t"))),
        ("del", X),
        ("del", f"{X}.{Y}"),
        ("pop", Y, "dflt"),
        ("pop", f"{X}.{Y}.{Z}", None),
        ("update", ("ns", {X: {Y: 8}, Z: 9}), None, None),
        ("update", ("ns", {Y: 10}), X, True),
        ("update", ("none", None), f"{X}.{Y}", False),
        ("clone",),
    ]


def run_history(ctx, ops, compare_each=False, layer="L1"):
    """-> None | 'unspec' | (sig, detail, step index)"""
    ns, m = Namespace(), Model()
    changed = False
    for i, op in enumerate(ops):
        ns, v = step(ctx, ns, m, op, layer)
        if v == "unspec":
            ctx.count("L1.history_cut_at_dict_prefix")
            return "unspec", changed
        if v is not None:
            return (v[0], v[1], i), changed
        if op[0] in ("set", "setattr", "update", "del", "pop", "pop1", "delattr"):
            changed = True
        if compare_each:
            r = compare_observers(ctx, ns, m, deep=(i % 4 == 3 or i == len(ops) - 1))
            if r:
                return (r[0], r[1], i), changed
    if not compare_each:
        r = compare_observers(ctx, ns, m, deep=True)
        if r:
            return (r[0], r[1], len(ops) - 1), changed
    if INV["bad"]:
        bad, INV["bad"] = INV["bad"], None
        return ("invariant/storage", bad, len(ops) - 1), changed
    return None, changed


def rand_key(rng, maxdepth=3):
    depth = rng.choice([1, 1, 2, 2, 3][: 2 + maxdepth])
    pool = ORD + CLASH if rng.random() < 0.6 else ORD + CLASH[:2]
    return ".".join(rng.choice(pool) for _ in range(depth))


def rand_leaf(rng):
    k = rng.random()
    if k < 0.35:
        return rng.choice([("int", rng.randrange(100)), ("str", "s%d" % rng.randrange(9)), ("none", None), ("bool", True), ("float", 1.5)])
    if k < 0.5:
        return ("list", [rng.randrange(9) for _ in range(rng.randrange(3))])
    if k < 0.6:
        return ("tuple", tuple(rng.randrange(9) for _ in range(rng.randrange(3))))
    if k < 0.72:
        return ("dict", {rng.choice(["k", "items", "x"]): rng.randrange(9) for _ in range(rng.randrange(3))})
    return None


def rand_tree(rng, depth=0):
    t = {}
    for _ in range(rng.randrange(0, 3)):
        k = rng.choice(ORD + CLASH)
        if depth < 2 and rng.random() < 0.35:
            t[k] = rand_tree(rng, depth + 1)
        else:
            leaf = rand_leaf(rng) or ("int", rng.randrange(100))
            t[k] = {"__leaf__": build_value(leaf)[0]} if leaf[0] in ("dict",) else leaf[1]
    return t


def rand_value(rng):
    leaf = rand_leaf(rng)
    if leaf is not None:
        return leaf
    return ("ns", rand_tree(rng))


def rand_op(rng, present):
    r = rng.random()
    key = rng.choice(present) if present and rng.random() < 0.5 else rand_key(rng)
    if rng.random() < 0.03:
        key = rng.choice(["a b", "a..b", ".a", "a.", "a. b"])
    if r < 0.30:
        return ("set", key, rand_value(rng))
    if r < 0.38:
        if not valid_key(key):
            key = "a.b"  # setattr('a b') stores whatever argparse stores; a nested dict has no opinion
        return ("setattr", key, rand_value(rng))
    if r < 0.48:
        return ("del", key)
    if r < 0.52 and "." not in key and key not in CLASH:
        return ("delattr", key)
    if r < 0.62:
        return ("pop", key, rng.choice([None, "d", 0]))
    if r < 0.65:
        return ("pop1", key)
    if r < 0.80:
        val = ("ns", rand_tree(rng)) if rng.random() < 0.7 else rand_value(rng)
        k = None if (val[0] == "ns" and rng.random() < 0.5) else key
        ou = rng.choice([None, False, True, True])
        return ("update", val, k, ou)
    if r < 0.85:
        return ("clone",)
    if r < 0.90:
        return ("get", key, rng.choice([None, "d"]))
    if r < 0.95:
        return ("in", key)
    return ("getitem", key)


# ---------------------------------------------------------------------------------------------
# L2: addressing through dict values — dotted must behave like step by step
# ---------------------------------------------------------------------------------------------
def l2_case(ctx, rng):
    top = rng.choice(ORD + CLASH[:3])
    inner_keys = ["x", "y", "items", "keys", "q"]
    d = {k: rng.randrange(9) for k in rng.sample(inner_keys, rng.randrange(0, 4))}
    if rng.random() < 0.4:
        d[rng.choice(["n", "get"])] = {k: rng.randrange(9) for k in rng.sample(inner_keys, rng.randrange(0, 3))}
    sub = rng.choice(inner_keys + ["n.x", "n.zz", "get.items", "zz.b"])
    opname = rng.choice(["getitem", "in", "get", "pop", "del", "set"])
    import copy

    ns = Namespace()
    ns[top] = copy.deepcopy(d)
    ref = copy.deepcopy(d)  # step-by-step executed on a plain dict copy
    key = f"{top}.{sub}"
    parts = sub.split(".")
    cl = ("clash" if any(p in CLASH for p in parts) else "plain") if opname == "set" else "any"

    def ref_parent():
        cur = ref
        for p in parts[:-1]:
            cur = cur[p]
            if not isinstance(cur, dict):
                raise KeyError(p)
        return cur

    try:
        par = ref_parent()
        present = parts[-1] in par
    except KeyError:
        par, present = None, False
    ctx.count("mon.L2.stepwise_vs_dotted")
    ctx.evaluation(("L2", opname, key, sorted(map(str, d))))
    detail = f"ns[{top!r}]={d!r}; op {opname} {key!r}"
    try:
        if opname == "getitem":
            try:
                got = ("ok", ns[key])
            except KeyError:
                got = ("KeyError", None)
            exp = ("ok", par[parts[-1]]) if present else ("KeyError", None)
            if got[0] != exp[0] or (got[0] == "ok" and same(got[1], exp[1])):
                return (f"L2/getitem/dotted-differs-from-stepwise/{cl}", f"{detail}: dotted {short(got)} stepwise {short(exp)}")
        elif opname == "in":
            if (key in ns) != present:
                return (f"L2/in/dotted-differs-from-stepwise/{cl}", f"{detail}: dotted {key in ns} stepwise {present}")
        elif opname == "get":
            got = ns.get(key, SENT)
            exp = par[parts[-1]] if present else SENT
            if (got is SENT) != (exp is SENT) or (got is not SENT and same(got, exp)):
                return (f"L2/get/dotted-differs-from-stepwise/{cl}", f"{detail}: dotted {short(got)} stepwise {short(exp)}")
        elif opname == "pop":
            got = ns.pop(key, SENT)
            exp = par.pop(parts[-1], SENT) if par is not None else SENT
            if (got is SENT) != (exp is SENT) or (got is not SENT and same(got, exp)) or same(ns[top], ref):
                return (f"L2/pop/dotted-differs-from-stepwise/{cl}", f"{detail}: dotted {short(got)} -> {short(ns[top])}; stepwise {short(exp)} -> {short(ref)}")
        elif opname == "del":
            try:
                del ns[key]
                got = "ok"
            except Exception as ex:
                got = type(ex).__name__
            if present:
                del par[parts[-1]]
                if got != "ok" or same(ns[top], ref):
                    return (f"L2/del/dotted-differs-from-stepwise/{cl}", f"{detail}: dotted {got} -> {short(ns[top])}; stepwise -> {short(ref)}")
            else:
                if got == "ok" or same(ns[top], ref):
                    return (f"L2/del/missing-key-accepted/{cl}", f"{detail}: dotted {got}")
        elif opname == "set":
            if par is None:
                return None  # step by step would raise on a dict; what dotted set should do is not stated
            ns[key] = 99
            par[parts[-1]] = 99
            if not isinstance(ns[top], dict) or same(ns[top], ref):
                return (f"L2/set/dotted-differs-from-stepwise/{cl}", f"{detail}: dotted -> {short(ns[top])}; stepwise -> {short(ref)}")
    except Exception as ex:
        return (f"L2/{opname}/raised/{type(ex).__name__}/{cl}", f"{detail}: {type(ex).__name__}: {ex}")
    return None


# ---------------------------------------------------------------------------------------------
# L3: conversions
# ---------------------------------------------------------------------------------------------
def rand_plain_dict(rng, depth=0, mixed_lists=True):
    d = {}
    for _ in range(rng.randrange(0, 4)):
        k = rng.choice(ORD + CLASH + ["x1", "y_2"])
        r = rng.random()
        if depth < 3 and r < 0.35:
            d[k] = rand_plain_dict(rng, depth + 1, mixed_lists)
        elif r < 0.5:
            d[k] = [rng.randrange(9) for _ in range(rng.randrange(3))]
        elif r < 0.58:
            d[k] = tuple(rng.randrange(9) for _ in range(rng.randrange(3)))
        elif r < 0.68:
            d[k] = [rand_plain_dict(rng, depth + 2, mixed_lists) for _ in range(rng.randrange(1, 3))]
        elif r < 0.74 and mixed_lists:
            d[k] = [rng.randrange(9), rand_plain_dict(rng, depth + 2, mixed_lists)]
        else:
            d[k] = rng.choice([1, "s", None, True, 2.5])
    return d


def shape_class(d):
    """lexical class of a dict for finding signatures"""
    cls = set()

    def rec(x, inlist):
        if isinstance(x, dict):
            if inlist == "mixed":
                cls.add("dict-in-mixed-list")
            elif inlist == "pure":
                cls.add("dict-in-list")
            if not x:
                cls.add("empty-dict")
            for k, v in x.items():
                if k in CLASH:
                    cls.add("clash-key")
                rec(v, None)
        elif isinstance(x, list):
            kinds = {isinstance(v, dict) for v in x}
            for v in x:
                rec(v, "mixed" if len(kinds) == 2 else "pure")

    rec(d, None)
    return "+".join(sorted(cls)) or "plain"


def l3_case(ctx, rng):
    d = rand_plain_dict(rng)
    ctx.count("mon.L3.conversions")
    ctx.evaluation(("L3", short(d, 300)))
    r = l3_judge(d)
    if r:
        # localise: greedily drop keys / list items while the same monitor clause still fires
        clause = r[0].rsplit("/", 1)[0]
        d = shrink(d, lambda x: (lambda q: q is not None and q[0].rsplit("/", 1)[0] == clause)(l3_judge(x)))
        r = l3_judge(d)
    return r


def shrink(d, fails):
    import copy

    def candidates(x):
        if isinstance(x, dict):
            for k in list(x):
                y = dict(x)
                del y[k]
                yield y
            for k, v in x.items():
                for vv in candidates(v):
                    y = dict(x)
                    y[k] = vv
                    yield y
                if isinstance(v, (dict, list)):
                    y = dict(x)
                    y[k] = 1
                    yield y
        elif isinstance(x, list):
            for i in range(len(x)):
                yield x[:i] + x[i + 1 :]
            for i, v in enumerate(x):
                for vv in candidates(v):
                    yield x[:i] + [vv] + x[i + 1 :]

    progress = True
    while progress:
        progress = False
        for c in candidates(d):
            if fails(copy.deepcopy(c)):
                d, progress = c, True
                break
    return d


def l3_judge(d):
    import copy

    orig = copy.deepcopy(d)
    sc = shape_class(d)
    try:
        ns = dict_to_namespace(d)
        if same(d, orig):
            return (f"L3/dict_to_namespace/mutates-argument/{sc}", f"{short(orig)} -> {short(d)}")
        back = namespace_to_dict(ns)
        if same(back, orig):
            return (f"L3/roundtrip/dict_to_namespace-namespace_to_dict/{diff_class(same(back, orig))}", f"{short(orig)} -> {short(back)}")
        back2 = ns.as_dict()
        if same(back2, orig):
            return (f"L3/roundtrip/dict_to_namespace-as_dict/{diff_class(same(back2, orig))}", f"{short(orig)} -> {short(back2)}")
        # flat dict of leaves (top-level only) through the constructor
        flat = {k: v for k, v in orig.items() if not isinstance(v, (dict, list))}
        n2 = Namespace(flat)
        if same(n2.as_dict(), flat):
            return (f"L3/roundtrip/Namespace(dict)-as_dict/{shape_class(flat)}", f"{short(flat)} -> {short(n2.as_dict())}")
        n3 = Namespace(**{k: v for k, v in flat.items()})
        if not (n3 == n2):
            return ("L3/Namespace(**kw)-vs-Namespace(dict)", short(flat))
    except Exception as ex:
        return (f"L3/raised/{type(ex).__name__}/{sc}", f"{short(orig)}: {type(ex).__name__}: {ex}")
    return None


# ---------------------------------------------------------------------------------------------
def run_shard(ctx):
    install_invariant(ctx)
    quick = ctx.tier == "quick"
    maxlen = 4 if quick else 5
    nrot = 2 if quick else 3

    if ctx.replay is not None:
        w = ctx.replay.get("witness") or {}
        if "ops" in w:
            ops = _ops_from_json(w["ops"])
            r, _ = run_history(ctx, ops, compare_each=True)
            ctx.evaluation(("replay", short(ops, 1000)))
            if r and r != "unspec":
                ctx.violation("nsmodel", r[0], dict(ops=ops, detail=r[1], step=r[2]))
            return
        # L2 / L3 replays regenerate by case rng
        for i, rng in ctx.cases(1):
            fn = l2_case if w.get("layer") == "L2" else l3_case
            r = fn(ctx, ctx.case_rng(i, w.get("layer")))
            if r:
                ctx.violation("nsmodel", r[0], dict(layer=w.get("layer"), detail=r[1]))
        return

    # ---- L1 exhaustive --------------------------------------------------------------------
    complete = True
    t_ex_deadline = ctx.t0 + ctx.budget * 0.6
    import time

    idx = 0
    for rot_i in range(nrot):
        rot = ctx.seed * nrot + rot_i
        alpha = alphabet(rot)
        for L in range(1, maxlen + 1):
            for seq in itertools.product(range(len(alpha)), repeat=L):
                idx += 1
                if idx % ctx.nshards != ctx.shard:
                    continue
                if idx % 512 == 0 and time.time() > t_ex_deadline:
                    complete = False
                    break
                ops = [alpha[j] for j in seq]
                ctx.case_index = None
                r, changed = run_history(ctx, ops)
                ctx.count("mon.L1.histories_exhaustive")
                ctx.count("evaluations")
                if changed:
                    ctx.distinct(("ex", rot, seq))
                if r == "unspec" or r is None:
                    continue
                ctx.violation("nsmodel", r[0], dict(layer="L1-exhaustive", ops=ops, detail=r[1], step=r[2]))
            if not complete:
                break
        if not complete:
            break
    ctx.extra(l1_exhaustive_complete=complete, l1_exhaustive_alphabet_size=14, l1_exhaustive_max_len=maxlen, l1_exhaustive_rotations=nrot)
    ctx.sample(dict(layer="L1-exhaustive", alphabet=[short(o) for o in alphabet(ctx.seed * nrot)]), limit=1)

    # ---- L2 / L3 / random L1 interleaved until the deadline --------------------------------
    for i, rng in ctx.cases():
        # random history
        n = rng.randrange(3, 41)
        ops = []
        present_guess = []
        for _ in range(n):
            op = rand_op(rng, present_guess)
            ops.append(op)
            if op[0] in ("set", "setattr") and valid_key(op[1]):
                present_guess.append(op[1])
        r, changed = run_history(ctx, ops, compare_each=True)
        ctx.count("mon.L1.histories_random")
        ctx.evaluation(("rnd", short(ops, 2000)) if changed else None)
        if i < 2:
            ctx.sample(dict(layer="L1-random", ops=[short(o, 120) for o in ops[:12]]), limit=3)
        if r not in (None, "unspec"):
            ctx.violation("nsmodel", r[0], dict(layer="L1-random", ops=ops, detail=r[1], step=r[2]))
        for j in range(3):
            r2 = l2_case(ctx, ctx.case_rng(i * 3 + j, "L2"))
            if r2:
                ctx.violation("nsmodel", r2[0], dict(layer="L2", detail=r2[1]))
            r3 = l3_case(ctx, ctx.case_rng(i * 3 + j, "L3"))
            if r3:
                ctx.violation("nsmodel", r3[0], dict(layer="L3", detail=r3[1]))
    ctx.count("mon.invariant.storage", INV["evals"])
    ctx.extra(icontract_invariant_installed=INV["available"])


def _ops_from_json(ops):
    out = []
    for op in ops:
        op = list(op)
        fixed = []
        for x in op:
            if isinstance(x, list) and len(x) == 2 and isinstance(x[0], str) and x[0] in ("int", "str", "list", "tuple", "dict", "ns", "none", "bool", "float"):
                v = tuple(x[1]) if x[0] == "tuple" else x[1]
                fixed.append((x[0], v))
            else:
                fixed.append(x)
        out.append(tuple(fixed))
    return out
