"""C13 — parameters resolved through **kwargs are exactly those the code accepts.

Generated class hierarchies (depth 1-5, single and multiple inheritance, classes split over two source
files) composed from the documented forwarding patterns. Two independent oracles: (1) a model that
computes the reachable named parameters from the generator's own spec of the program by plain recursion
over Python's MRO; (2) the interpreter: calling the class with every offered parameter must not raise an
unexpected-keyword error, every reachable parameter that is not offered must be accepted by a call, and
hard-coded ones must be rejected by the interpreter."""

from __future__ import annotations

import inspect

from jsonargparse import ArgumentParser
from jsonargparse._parameter_resolvers import get_signature_parameters

from vf.gen import programs
from vf.util import call, same, short

ANN = {"int": [1, 7], "str": ["'a'", "'zz'"], "float": [0.5, 2.0], "bool": [True, False], "Optional[int]": [None, 3], "List[int]": [None]}
VAL = {"int": 11, "str": "vv", "float": 1.25, "bool": True, "Optional[int]": 5, "List[int]": [1, 2], None: 9}
HEADER = "from typing import Any, Dict, List, Optional, Tuple, Union\n"


def val_for(ann):
    if ann is None:
        return 9
    base = ann[len("Optional["):-1] if ann.startswith("Optional[") else ann
    return VAL.get(base, 9)


def gen_named(rng, prefix, n, allow_required=False):
    out = []
    for k in range(n):
        ann = rng.choice(list(ANN))
        d = rng.choice(ANN[ann])
        if d is None and not ann.startswith("Optional"):
            ann = f"Optional[{ann}]"
        required = allow_required and rng.random() < 0.25
        if required and ann.startswith("Optional["):
            ann = ann[len("Optional["):-1]  # Optional without default is by design an option defaulting to None
        out.append(dict(name=f"{prefix}{'abc'[k]}", ann=ann, default=None if required else repr(d) if not isinstance(d, str) else d, required=required))
    out.sort(key=lambda p: not p["required"])
    return out


def sig(params, first="self", kwargs=True):
    parts = [first] if first else []
    parts += [f"{p['name']}: {p['ann']}" + ("" if p["required"] else f" = {p['default']}") for p in params]
    if kwargs:
        parts.append("**kwargs")
    return ", ".join(parts)


def gen_hierarchy(rng, depth):
    """-> (sources {module_index: text}, specs, funcs, leaf name)"""
    funcs = {}
    specs = {}
    flags = "FLAG_ON = True\nFLAG_OFF = False\n"
    src = {0: HEADER + flags, 1: HEADER + flags}
    two_files = rng.random() < 0.35

    fmod = {}

    def new_func(tag):
        name = f"helper_{tag}"
        ps = gen_named(rng, f"h{tag}", rng.randrange(1, 3))
        funcs[name] = ps
        fmod[name] = cur["module"]
        return name

    cur = {"module": 0}

    names = [f"C{k}" for k in range(depth)]
    order = []
    pending = set()  # required parameters of the chain so far: a class above them has to forward **kwargs to super
    pend_hist = []  # pending after each class
    for k, cname in enumerate(names):
        modi = 1 if (two_files and k == 0) else 0
        cur["module"] = modi
        parents = [names[k - 1]] if k > 0 else []
        own = gen_named(rng, f"p{k}", rng.randrange(0, 3), allow_required=(k == depth - 1 or rng.random() < 0.3))
        # deliberate overlap: sometimes re-declare a parent's parameter with another default
        if k > 0 and rng.random() < 0.2 and [p for p in specs[names[k - 1]]["own"] if not p["required"]]:
            pp = dict(rng.choice([p for p in specs[names[k - 1]]["own"] if not p["required"]]))
            pp["default"], pp["required"] = repr(val_for(pp["ann"])), False
            own = [p for p in own if p["name"] != pp["name"]] + [pp]
        kind = rng.choice(["super", "super", "super-hard", "noinit", "func", "method", "attr", "pop", "get", "cond", "cond-class", "cond-param", "nokwargs", "pop-condfunc"]) if k > 0 else rng.choice(["root", "root", "func", "pop", "get", "attr", "cond", "pop-condfunc"])
        if k == depth - 1 and kind == "noinit" and rng.random() < 0.5:
            kind = "super"
        if pending and kind not in ("super", "super-hard", "pop", "noinit"):
            kind = rng.choice(["super", "pop", "pop"])
        if kind == "noinit":
            own = []
        sp = dict(name=cname, module=modi, parents=parents, own=own, kind=kind, has_init=kind != "noinit", has_kwargs=kind not in ("noinit", "nokwargs", "root"), forwards=[], hard={})
        body = []
        cls_extra = ""
        pre = ""
        if kind in ("super", "super-hard", "pop", "get"):
            hard = {}
            if kind == "super-hard":
                cand = list(specs[names[k - 1]]["own"]) if specs[names[k - 1]]["has_init"] else []
                if cand:
                    hp = rng.choice(cand)
                    hard[hp["name"]] = repr(val_for(hp["ann"]))
            if kind in ("pop", "get"):
                pname = f"popped{k}"
                const = rng.choice(["3", "'pv'", "None"])
                body.append(f"self.v_{pname} = kwargs.{kind}(\"{pname}\", {const})")
                sp["forwards"].append(("pop", pname, const))
            sp["hard"] = hard
            hs = "".join(f"{n}={v}, " for n, v in hard.items())
            if kind == "get":
                # a get leaves the key in kwargs, which then cannot be forwarded to a strict callee
                if k > 0:
                    body.append("super().__init__()")
            elif k > 0:
                style = rng.choice(["super()", f"super({cname}, self)"])
                if k >= 2 and kind == "super" and rng.random() < 0.3:
                    # documented non-immediate super: continue after the parent, whose __init__ is not run at all
                    style = f"super({names[k - 1]}, self)"
                    sp["forwards"].append(("super-after", names[k - 1], hard))
                    sp["kind"] = "super-skip"
                    # what the skipped parent provided (hard-coded) or required is out of the picture: back to the state below it
                    pending = set(pend_hist[k - 2])
                else:
                    sp["forwards"].append(("super", hard))
                body.append(f"{style}.__init__({hs}**kwargs)")
        elif kind == "func":
            f = new_func(f"{k}f")
            hard = {}
            if rng.random() < 0.4:
                hp = rng.choice(funcs[f])
                hard[hp["name"]] = repr(val_for(hp["ann"]))
            body.append(f"self.r = {f}(" + "".join(f"{n}={v}, " for n, v in hard.items()) + "**kwargs)")
            sp["forwards"].append(("func", f, hard))
            if k > 0:
                body.append("super().__init__()")
        elif kind == "method":
            ms = gen_named(rng, f"m{k}", rng.randrange(1, 3))
            cls_extra += f"    def _setup({sig(ms, 'self', False)}):\n        self.s = ({', '.join(p['name'] for p in ms)},)\n"
            funcs[f"{cname}._setup"] = ms
            body.append("self._setup(**kwargs)")
            sp["forwards"].append(("func", f"{cname}._setup", {}))
            if k > 0:
                body.append("super().__init__()")
        elif kind == "attr":
            f = new_func(f"{k}a")
            body.append("self._kw = kwargs")
            hard = {}
            if rng.random() < 0.4:
                hp = rng.choice(funcs[f])
                hard[hp["name"]] = repr(val_for(hp["ann"]))
            cls_extra += f"    def run(self):\n        return {f}(" + "".join(f"{n}={v}, " for n, v in hard.items()) + "**self._kw)\n"
            sp["forwards"].append(("func", f, hard))
            if k > 0:
                body.append("super().__init__()")
        elif kind == "cond":
            fa, fb = new_func(f"{k}ca"), new_func(f"{k}cb")
            flag = rng.choice(["FLAG_ON", "FLAG_OFF"])
            body.append(f"if {flag}:\n            self.r = {fa}(**kwargs)\n        else:\n            self.r = {fb}(**kwargs)")
            sp["forwards"].append(("func", fa if flag == "FLAG_ON" else fb, {}))
            if k > 0:
                body.append("super().__init__()")
        elif kind == "pop-condfunc":
            # **kwargs used twice: a kwargs.pop, then a call of a function that itself forwards them conditionally, so the
            # first parameter resolved for that call is a conditional one
            pname = f"popped{k}"
            const = rng.choice(["3", "'pv'"])
            fa, fb = new_func(f"{k}pa"), new_func(f"{k}pb")
            flag = rng.choice(["FLAG_ON", "FLAG_OFF"])
            helper = f"cond_helper_{k}"
            pre += f"def {helper}(**kwargs):\n    if {flag}:\n        return {fa}(**kwargs)\n    else:\n        return {fb}(**kwargs)\n"
            body.append(f"self.v_{pname} = kwargs.pop(\"{pname}\", {const})")
            body.append(f"self.r = {helper}(**kwargs)")
            sp["forwards"].append(("pop", pname, const))
            sp["forwards"].append(("func", fa if flag == "FLAG_ON" else fb, {}))
            if k > 0:
                body.append("super().__init__()")
        elif kind == "cond-class":
            # documented conditional: another class (which itself forwards **kwargs) in one branch, super() in the other
            oname = f"Other{k}"
            ops = gen_named(rng, f"o{k}", rng.randrange(1, 3))
            obase = gen_named(rng, f"ob{k}", 1)
            pre += f"class {oname}Base:\n    def __init__({sig(obase, 'self', False)}):\n        self.v = ({obase[0]['name']},)\n"
            pre += f"class {oname}({oname}Base):\n    def __init__({sig(ops, 'self', True)}):\n        super().__init__(**kwargs)\n"
            funcs[oname] = ops + obase
            fmod[oname] = modi
            flag = rng.choice(["FLAG_ON", "FLAG_OFF"])
            body.append(f"if {flag}:\n            self.o = {oname}(**kwargs)\n            super().__init__()\n        else:\n            super().__init__(**kwargs)")
            if flag == "FLAG_ON":
                sp["forwards"].append(("func", oname, {}))
            else:
                sp["forwards"].append(("super", {}))
        elif kind == "cond-param":
            # the condition is a parameter: both calls are possible, so the parameters of both are offered (conditionally)
            oname = f"Other{k}"
            ops = gen_named(rng, f"o{k}", rng.randrange(1, 3))
            obase = gen_named(rng, f"ob{k}", 1)
            pre += f"class {oname}Base:\n    def __init__({sig(obase, 'self', False)}):\n        self.v = ({obase[0]['name']},)\n"
            pre += f"class {oname}({oname}Base):\n    def __init__({sig(ops, 'self', True)}):\n        super().__init__(**kwargs)\n"
            funcs[oname] = ops + obase
            fmod[oname] = modi
            sw = f"sw{k}"
            own = own + [dict(name=sw, ann="bool", default="False", required=False)]
            sp["own"] = own
            sp["switch"] = (sw, [p_["name"] for p_ in ops + obase])
            body.append(f"if {sw}:\n            self.o = {oname}(**kwargs)\n            super().__init__()\n        else:\n            super().__init__(**kwargs)")
            sp["forwards"].append(("func", oname, {}))
            sp["forwards"].append(("super", {}))
        elif kind == "nokwargs":
            body.append("super().__init__()")
        elif kind == "root":
            body.append("pass")
        specs[cname] = sp
        order.append(cname)
        pending = (pending - set(sp["hard"])) | {p["name"] for p in own if p["required"]}
        pend_hist.append(set(pending))
        bases = ", ".join(parents)
        text = pre + (f"class {cname}({bases}):\n" if bases else f"class {cname}:\n")
        if sp["has_init"]:
            text += f"    def __init__({sig(own, 'self', sp['has_kwargs'])}):\n"
            for p in own:
                text += f"        self.{p['name']} = {p['name']}\n"
            for b in body:
                text += f"        {b}\n"
        text += cls_extra
        if not sp["has_init"] and not cls_extra:
            text += "    pass\n"
        src[modi] += text
    # helper functions go to the module of the class using them (all in module 0 except those of C0 when split)
    ftext = {0: "", 1: ""}
    for fname, ps in funcs.items():
        if "." in fname or fname.startswith("Other"):
            continue
        ftext[fmod[fname]] += f"def {fname}({sig(ps, None, False)}):\n    return ({', '.join(p['name'] for p in ps)},)\n"
    # multiple inheritance: a diamond on top of the chain
    leaf = names[-1]
    if depth >= 2 and rng.random() < 0.3:
        root = names[0]
        left_has_init = rng.random() < 0.5
        rp = gen_named(rng, "rt", 1)
        hard = {}
        if specs[root]["own"] and rng.random() < 0.6:
            hp = rng.choice(specs[root]["own"])
            hard[hp["name"]] = repr(val_for(hp["ann"]))
        text = f"class Left({root}):\n" + ("    def __init__(self, lfa: int = 1, **kwargs):\n        self.lfa = lfa\n        super().__init__(**kwargs)\n" if left_has_init else "    pass\n")
        text += f"class Right({root}):\n    def __init__({sig(rp, 'self', True)}):\n        self.{rp[0]['name']} = {rp[0]['name']}\n        super().__init__(" + "".join(f"{n}={v}, " for n, v in hard.items()) + "**kwargs)\n"
        text += "class Diamond(Left, Right):\n    def __init__(self, dia: int = 0, **kwargs):\n        self.dia = dia\n        super().__init__(**kwargs)\n"
        specs["Left"] = dict(name="Left", module=0, parents=[root], own=[dict(name="lfa", ann="int", default="1", required=False)] if left_has_init else [], kind="super" if left_has_init else "noinit", has_init=left_has_init, has_kwargs=left_has_init, forwards=[("super", {})] if left_has_init else [], hard={})
        specs["Right"] = dict(name="Right", module=0, parents=[root], own=rp, kind="super", has_init=True, has_kwargs=True, forwards=[("super", hard)], hard=hard)
        specs["Diamond"] = dict(name="Diamond", module=0, parents=["Left", "Right"], own=[dict(name="dia", ann="int", default="0", required=False)], kind="super", has_init=True, has_kwargs=True, forwards=[("super", {})], hard={})
        # a second class over Left alone: what Left's super() reaches differs between the two (the root vs Right, then the root)
        text += "class Solo(Left):\n    def __init__(self, solo: int = 0, **kwargs):\n        self.solo = solo\n        super().__init__(**kwargs)\n"
        specs["Solo"] = dict(name="Solo", module=0, parents=["Left"], own=[dict(name="solo", ann="int", default="0", required=False)], kind="super", has_init=True, has_kwargs=True, forwards=[("super", {})], hard={})
        if specs[root]["module"] == 1:
            src[0] += "from MOD1 import *\n"
        src[0] += text
        leaf = "Diamond"
    return src, ftext, specs, funcs, leaf, two_files


def expected_params(cls, specs, funcs):
    """reachable named parameters: name -> (annotation source | None, default source | <required>)"""
    mro = [c for c in cls.__mro__ if c is not object]

    def from_idx(i):
        while i < len(mro) and not specs[mro[i].__name__]["has_init"]:
            i += 1
        if i >= len(mro):
            return {}
        sp = specs[mro[i].__name__]
        out = {p["name"]: (p["ann"], "<required>" if p["required"] else p["default"]) for p in sp["own"]}
        if sp["has_kwargs"]:
            for fw in sp["forwards"]:
                if fw[0] == "super":
                    r = from_idx(i + 1)
                    r = {k: v for k, v in r.items() if k not in fw[1]}
                elif fw[0] == "super-after":
                    r = from_idx([c.__name__ for c in mro].index(fw[1]) + 1)
                    r = {k: v for k, v in r.items() if k not in fw[2]}
                elif fw[0] == "func":
                    r = {p["name"]: (p["ann"], p["default"]) for p in funcs[fw[1]] if p["name"] not in fw[2]}
                else:
                    r = {fw[1]: (None, fw[2])}
                for k, v in r.items():
                    out.setdefault(k, v)
        return out

    return from_idx(0)


def branch_needs(cls, specs, funcs):
    """name -> {switch parameter: value} that a call has to pass for the name to be legal (conditions on parameters)"""
    mro = [c for c in cls.__mro__ if c is not object]
    needs = {}
    # classes whose __init__ runs at all: a non-immediate super(Parent, self) leaves the parent's __init__ out
    names_ = [c_.__name__ for c_ in mro]
    reached, i_ = set(), 0
    while i_ < len(mro):
        reached.add(i_)
        after_ = [fw[1] for fw in specs.get(names_[i_], {}).get("forwards", []) if fw[0] == "super-after"]
        i_ = names_.index(after_[0]) + 1 if after_ else i_ + 1
    for i, c in enumerate(mro):
        sp = specs.get(c.__name__)
        if not sp or "switch" not in sp or i not in reached:
            continue
        sw, other_names = sp["switch"]
        for n in other_names:
            needs.setdefault(n, {})[sw] = True
        # whatever is reached through super() from here needs the switch off
        sub = type("X", tuple(mro[i + 1 :]) or (object,), {}) if False else None
        j = i + 1
        seen = set()
        while j < len(mro):
            spj = specs.get(mro[j].__name__)
            if spj and spj["has_init"]:
                for p_ in spj["own"]:
                    seen.add(p_["name"])
                for fw in spj["forwards"]:
                    if fw[0] == "func":
                        seen |= {p_["name"] for p_ in funcs[fw[1]]}
                    elif fw[0] == "pop":
                        seen.add(fw[1])
                after = [fw[1] for fw in spj["forwards"] if fw[0] == "super-after"]
                if after:
                    j = [c_.__name__ for c_ in mro].index(after[0])
                elif not any(fw[0] == "super" for fw in spj["forwards"]):
                    break
            j += 1
        hard = set()
        for c2 in mro:
            for fw in specs.get(c2.__name__, {}).get("forwards", []):
                if fw[0] in ("super", "super-after", "func") and isinstance(fw[-1], dict):
                    hard |= set(fw[-1])
        for n in seen - hard:
            needs.setdefault(n, {})[sw] = False
    return needs


def hard_coded(cls, specs):
    out = set()
    for c in cls.__mro__:
        sp = specs.get(c.__name__)
        if sp:
            for fw in sp["forwards"]:
                if fw[0] in ("super", "super-after", "func") and isinstance(fw[-1], dict):
                    out |= set(fw[-1])
    return out


def case(ctx, i, rng):
    depth = rng.choice([1, 2, 2, 3, 3, 4, 5])
    src, ftext, specs, funcs, leaf, two_files = gen_hierarchy(rng, depth)
    mod1 = None
    mods = []
    try:
        if two_files:
            o1 = call(programs.write_module, ctx.workdir, src[1] + ftext[1], "c13b")
            if not o1.accepted:
                ctx.inconclusive(f"generated base module does not import: {o1.brief()}")
                return
            mod1, p1 = o1.value
            mods.append((mod1, p1))
            text0 = src[0].replace("from MOD1 import *\n", "") if False else src[0]
            head = HEADER + f"from {mod1.__name__} import C0\n"
            text0 = head + text0[len(HEADER):].replace("from MOD1 import *\n", "")
        else:
            text0 = src[0] + src[1][len(HEADER):]
            text0 = text0.replace("from MOD1 import *\n", "")
        # functions before classes
        text0 = text0[: len(HEADER)] + ftext[0] + (ftext[1] if not two_files else "") + text0[len(HEADER):]
        o0 = call(programs.write_module, ctx.workdir, text0, "c13a")
        if not o0.accepted:
            ctx.inconclusive(f"generated module does not import: {o0.brief()} :: {text0[-600:]}")
            return
        mod, p0 = o0.value
        mods.append((mod, p0))
        def check_one(leaf, first):
            cls = getattr(mod, leaf)
            exp = expected_params(cls, specs, funcs)
            hard = hard_coded(cls, specs) - set(exp)
            w = dict(source=(src[1] + ftext[1] + "\n# ---- second file ----\n" if two_files else "") + text0[len(HEADER):], leaf=leaf, depth=depth, two_files=two_files)
            kinds = sorted({specs[c.__name__]["kind"] for c in cls.__mro__ if c.__name__ in specs})
            ctx.evaluation(("c13", depth, two_files, leaf, tuple(specs[c.__name__]["kind"] for c in cls.__mro__ if c.__name__ in specs)))
            ctx.count("mon.programs")
            ctx.count(f"st.depth.{depth}")
            for kd in kinds:
                ctx.count(f"st.pattern.{kd}")
            if two_files:
                ctx.count("st.two_source_files")
            if leaf == "Diamond":
                ctx.count("st.multiple_inheritance")
            if hard:
                ctx.count("st.hard_coded_argument")
            # sanity of the generated program + model: the interpreter accepts all expected parameters together
            needs = branch_needs(cls, specs, funcs)
            allv = {n: val_for(a) for n, (a, d) in exp.items()}
            for sw_ in {sw_ for nd in needs.values() for sw_ in nd}:
                allv[sw_] = False
            together = {n: v for n, v in allv.items() if not any(val for val in needs.get(n, {}).values())}
            if needs:
                ctx.count("st.condition_on_a_parameter")
            oc = call(cls, **together)
            if not oc.accepted:
                ctx.observe("generated-program-or-model-inconsistent (case skipped)", dict(error=oc.brief(), source=w["source"][-500:]))
                ctx.count("cases_skipped_model_disagrees_with_interpreter")
                return
            o = call(get_signature_parameters, cls)
            if not o.accepted:
                ctx.violation("resolver", f"get_signature_parameters-raised/{o.exc_type}", dict(w, outcome=o.brief(), tb=o.tb))
                return
            params = {p.name: p for p in o.value}
            cond = {n for n, p in params.items() if "Conditional" in repr(p.default) or "Conditional" in type(p.default).__name__}
            offered = set(params) - cond
            ctx.count("mon.parameter_sets_compared")
            missing = set(exp) - set(params)
            extra = offered - set(exp)
            pat = "+".join(kinds)
            for n in sorted(missing):
                # interpreter confirms: a call with it succeeds
                base = {m: val_for(a) for m, (a, d) in exp.items() if d == "<required>"}
                oc = call(cls, **{**base, **needs.get(n, {}), n: allv[n]})
                if oc.accepted:
                    ctx.violation("resolver", f"reachable-parameter-not-offered/{_where(n)}/{'two-files' if two_files else 'one-file'}/{'diamond' if leaf == 'Diamond' else 'chain'}", dict(w, parameter=n, offered=sorted(params), expected=sorted(exp), patterns=pat))
                    return
            for n in sorted(extra):
                base = {m: val_for(a) for m, (a, d) in exp.items() if d == "<required>"}
                oc = call(cls, **{**base, n: 9})
                if oc.accepted and callable(getattr(oc.value, "run", None)):
                    # **kwargs kept in an attribute: the call that receives them happens when the object is used
                    oc = call(oc.value.run)
                    ctx.count("mon.extra_parameter_confirmed_by_using_the_object")
                if not oc.accepted and oc.exc_type == "TypeError":
                    what = "hard-coded-parameter-offered" if n in hard or "multiple values" in (oc.exc_text or "") else "offered-parameter-not-accepted-by-the-code"
                    ctx.violation("resolver", f"{what}/{_where(n)}/{'diamond' if leaf == 'Diamond' else 'chain'}", dict(w, parameter=n, error=oc.exc_text, offered=sorted(params), expected=sorted(exp), patterns=pat))
                    return
            # type and default of each offered parameter = those of the signature it comes from
            for n in sorted(set(exp) & set(params)):
                a, d = exp[n]
                p = params[n]
                if n in cond and d != "<required>":
                    continue
                if a is not None:
                    ea = eval(a, vars(mod))
                    if p.annotation != ea:
                        ctx.violation("resolver", f"annotation-differs/{_where(n)}", dict(w, parameter=n, expected=a, got=repr(p.annotation)))
                        return
                if d == "<required>":
                    if p.default is not inspect._empty:
                        ctx.violation("resolver", f"required-parameter-got-default/{_where(n)}", dict(w, parameter=n, got=repr(p.default)))
                        return
                else:
                    ed = eval(d, vars(mod))
                    if p.default is inspect._empty or same(ed, p.default):
                        ctx.violation("resolver", f"default-differs/{_where(n)}", dict(w, parameter=n, expected=d, got=repr(p.default)))
                        return
            # through the parser: everything offered can be given, and instantiation works
            pr = ArgumentParser(exit_on_error=False)
            oa = call(pr.add_class_arguments, cls, "x")
            if not oa.accepted:
                ctx.violation("resolver", f"add_class_arguments-raised/{oa.exc_type}", dict(w, outcome=oa.brief()))
                return
            typed = {n: v for n, v in allv.items() if n in offered and n in exp and exp[n][0] is not None and not any(needs.get(n, {}).values())}
            op = call(pr.parse_object, {"x": dict(typed)})
            ctx.count("mon.parser_instantiations")
            if not op.accepted:
                ctx.violation("resolver", f"offered-parameters-rejected-by-parser/{op.exc_type}", dict(w, given=typed, outcome=op.brief()))
                return
            oi = call(pr.instantiate_classes, op.value)
            if not oi.accepted:
                mech = ""
                if needs and not any(val is False for nd in needs.values() for val in nd.values()):
                    mech = "/condition-on-parameter-with-one-branch-without-parameters"
                ctx.violation("resolver", f"instantiation-with-offered-parameters-failed/{oi.exc_type}{mech}", dict(w, given=typed, outcome=oi.brief()))
                return
            # a required parameter must be required by the parser too
            reqs = [n for n, (a, d) in exp.items() if d == "<required>"]
            if reqs:
                rq = rng.choice(sorted(reqs))
                on = call(pr.parse_object, {"x": {k: v for k, v in typed.items() if k != rq}})
                ctx.count("mon.required_enforced")
                if on.accepted:
                    ctx.violation("resolver", "required-parameter-not-enforced", dict(w, parameter=rq, result=short(on.value)))
            if i < 2 and first:
                ctx.sample(dict(source=w["source"][:700], offered=sorted(params)))

        # the leaf and, in random order around it, other classes of the same hierarchy: their MROs share classes but continue
        # differently after them (Left alone vs Left inside Diamond; a chain class alone vs below its subclasses)
        others = [n for n in specs if n != leaf and specs[n]["has_init"]]
        rng.shuffle(others)
        targets = [leaf] + others[: rng.choice([0, 1, 2, 2])]
        if leaf == "Diamond" and "Solo" not in targets and rng.random() < 0.7:
            targets.append("Solo")
        if "Solo" in targets:
            ctx.count("st.two_classes_sharing_a_base_with_different_mro_continuations")
        rng.shuffle(targets)
        for n_, t in enumerate(targets):
            if t != leaf:
                ctx.count("st.non_leaf_class_of_the_same_hierarchy" + (".before_the_leaf" if targets.index(leaf) > n_ else ".after_the_leaf"))
            check_one(t, n_ == 0)
    finally:
        for m, pth in mods:
            programs.forget(m, pth)


def _where(n):
    if n.startswith("popped"):
        return "kwargs.pop/get"
    if n.startswith("h") or n.startswith("m"):
        return "callee-function-or-method"
    if n in ("lfa", "dia") or n.startswith("rt"):
        return "diamond-class"
    return "class-in-chain"


def run_shard(ctx):
    for i, rng in ctx.cases():
        case(ctx, i, rng)
