"""C18 — save never destroys data: all-or-nothing on failure, no silent overwrite.

Fault enumeration: every scenario (configuration with sub-files x single/multi-file x overwrite x
pre-existing files) is first saved fault-free; then once per fault position: an invalid value at each
key (validation), an unserialisable value at each position incl. inside sub-configs (serialisation), and an
injected OSError at the k-th write-open. Oracle: directory snapshots (names, sizes, SHA-256) before and
after + audit log of write-opens."""

from __future__ import annotations

import builtins
import copy
import hashlib
import json
import os
import shutil
import sys
from typing import Optional

from jsonargparse import ActionConfigFile, ActionParser, ArgumentParser, Namespace
from jsonargparse.typing import register_type

from vf.fixtures import zoo
from vf.util import call, same, short, strip_prov


class Fragile:
    """a registered type whose serializer fails for a marked value (an unserialisable configuration value)"""

    def __init__(self, v):
        self.v = str(v)

    def __eq__(self, other):
        return isinstance(other, Fragile) and other.v == self.v

    def __repr__(self):
        return f"Fragile({self.v!r})"


def _ser(x):
    if x.v == "boom":
        raise ValueError("cannot serialise this Fragile value")
    return x.v


register_type(Fragile, _ser, Fragile)

AUDIT = {"on": False, "events": []}


def _hook(event, args):
    if AUDIT["on"] and event == "open" and isinstance(args[0], str) and args[1] and any(ch in args[1] for ch in "wax+"):
        AUDIT["events"].append((os.path.basename(args[0]), args[1]))


sys.addaudithook(_hook)


def build(eoe=False):
    p = ArgumentParser(exit_on_error=eoe, prog="app")
    p.add_argument("--cfg", action=ActionConfigFile)
    p.add_argument("--a", type=int, default=1)
    p.add_argument("--s", type=str, default="s")
    p.add_argument("--fr", type=Optional[Fragile])
    p.add_argument("--dc", type=zoo.Outer, default=zoo.Outer())
    p.add_argument("--pt", type=zoo.Point, default=zoo.Point())
    p.add_argument("--m", type=zoo.Base, enable_path=True)
    inner = ArgumentParser(exit_on_error=eoe)
    inner.add_argument("--i1", type=int, default=2)
    inner.add_argument("--ifr", type=Optional[Fragile])
    p.add_argument("--inner", action=ActionParser(parser=inner))
    return p


def snapshot(d):
    out = {}
    for root, dirs, files in os.walk(d):
        for fn in files:
            pth = os.path.join(root, fn)
            with open(pth, "rb") as f:
                data = f.read()
            out[os.path.relpath(pth, d)] = (len(data), hashlib.sha256(data).hexdigest())
    return out


def scenario(rng, workdir, n):
    """creates the source directory with config + sub-files, returns argv to load it and the output dir"""
    src = os.path.join(workdir, f"src{n}")
    out = os.path.join(workdir, f"out{n}")
    for d in (src, out):
        shutil.rmtree(d, ignore_errors=True)
        os.makedirs(d)
    feats = {f for f in ("pt_file", "m_file", "inner_file", "sub_dir") if rng.random() < 0.6}
    if rng.random() < 0.25:
        feats.add("dc_file")  # a sub-config holding an Enum: multi-file save of it is a known finding
    sub = "parts" if "sub_dir" in feats else ""
    if sub:
        os.makedirs(os.path.join(src, sub))
    main = {"a": rng.randrange(100), "s": rng.choice(["w", "x y"])}
    files = {}
    if "dc_file" in feats:
        files["dc.yaml"] = "inner:\n  name: fromfile\n  tags: [t1]\n  color: blue\ncount: 3\n"
        main["dc"] = os.path.join(sub, "dc.yaml")
    if "pt_file" in feats:
        files["pt.json"] = json.dumps({"x": 4, "y": 2.5})
        main["pt"] = os.path.join(sub, "pt.json")
    same_name = "m_file" in feats and "inner_file" in feats and rng.random() < 0.3
    if same_name:
        # two sub-configs loaded from files of the same name in different directories
        feats.add("same_name_subfiles")
        for d in ("da", "db"):
            os.makedirs(os.path.join(src, sub, d), exist_ok=True)
        files[os.path.join("da", "part.yaml")] = "class_path: vf.fixtures.zoo.SubA\ninit_args:\n  a: 6\n  b: fromfile\n"
        main["m"] = os.path.join(sub, "da", "part.yaml")
        files[os.path.join("db", "part.yaml")] = "i1: 9\n"
        main["inner"] = os.path.join(sub, "db", "part.yaml")
    if "m_file" in feats and not same_name:
        files["model.yaml"] = "class_path: vf.fixtures.zoo.SubA\ninit_args:\n  a: 6\n  b: fromfile\n"
        main["m"] = os.path.join(sub, "model.yaml")
    if "inner_file" in feats and not same_name:
        files["inner.yaml"] = "i1: 9\n"
        main["inner"] = os.path.join(sub, "inner.yaml")
    for fn, text in files.items():
        with open(os.path.join(src, sub, fn), "w") as f:
            f.write(text)
    with open(os.path.join(src, "main.yaml"), "w") as f:
        import yaml

        yaml.safe_dump(main, f)
    return src, out, feats, sorted({os.path.basename(f) for f in files})


def pre_existing(rng, out, subfiles, target):
    existing = {}
    if rng.random() < 0.6:
        existing[target] = "PRE-EXISTING TARGET CONTENT\n"
    for fn in subfiles:
        if rng.random() < 0.4:
            existing[fn] = f"pre-existing {fn}\n"
    if rng.random() < 0.5:
        existing["unrelated.txt"] = "unrelated\n"
    for fn, text in existing.items():
        with open(os.path.join(out, fn), "w") as f:
            f.write(text)
    return existing


def do_save(p, cfg, path, multifile, overwrite, fail_open_at=None, fmt=None):
    AUDIT["events"] = []
    AUDIT["on"] = True
    real_open = builtins.open
    count = {"n": 0}

    def failing_open(file, mode="r", *a, **k):
        if isinstance(file, str) and any(ch in mode for ch in "wa"):
            count["n"] += 1
            if count["n"] == fail_open_at:
                raise OSError(28, "No space left on device (injected)")
        return real_open(file, mode, *a, **k)

    try:
        if fail_open_at is not None:
            builtins.open = failing_open
        o = call(p.save, cfg, path, multifile=multifile, overwrite=overwrite, **({"format": fmt} if fmt else {}))
    finally:
        builtins.open = real_open
        AUDIT["on"] = False
    return o, list(AUDIT["events"])


def case(ctx, i, rng):
    p = build()
    src, out, feats, subfiles = scenario(rng, ctx.workdir, i % 10)
    cwd = os.getcwd()
    os.chdir(src)
    try:
        o = call(p.parse_args, ["--cfg", "main.yaml"])
    finally:
        os.chdir(cwd)
    if not o.accepted:
        ctx.inconclusive(f"scenario config not accepted: {o.brief()}")
        return
    cfg0 = o.value
    multifile = rng.random() < 0.6
    overwrite = rng.random() < 0.5
    target = rng.choice(["saved.yaml", "saved.json", "out.cfg"])
    existing = pre_existing(rng, out, subfiles, target)
    base_w = dict(features=sorted(feats), multifile=multifile, overwrite=overwrite, target=target, pre_existing=sorted(existing))
    ctx.count(f"st.mode.{'multifile' if multifile else 'single'}.{'overwrite' if overwrite else 'no-overwrite'}")
    if "same_name_subfiles" in feats and multifile:
        ctx.count("st.multifile_with_subfiles_of_the_same_name")
    # ---- fault list ----
    faults = [("none", None)]
    for key, bad in (("a", "not-an-int"), ("s", [1]), ("dc.count", "x"), ("pt.x", "x"), ("inner.i1", "x"), ("m.init_args.a", "x"), ("dc.inner.color", "nope")):
        faults.append(("invalid-value", (key, bad)))
    for key in ("fr", "inner.ifr"):
        faults.append(("unserialisable-value", (key, Fragile("boom"))))
    for k in (1, 2, 3, 4):
        faults.append(("oserror-at-write-open", k))
    # a string the output encoding cannot write (a lone surrogate: what a non-UTF-8 byte in argv becomes); the json format
    # writes it raw, so the failure comes when the text is written
    unenc = [("unencodable-value", (key, "caf\udce9")) for key in ("s", "dc.inner.name", "m.init_args.b")]
    if ctx.tier == "quick":
        faults = [faults[0]] + rng.sample(faults[1:], 5) + [rng.choice(unenc)]
    else:
        faults += unenc
    for kind, detail in faults:
        # fresh copy of the output dir state for every fault position
        for fn in os.listdir(out):
            os.remove(os.path.join(out, fn))
        for fn, text in existing.items():
            with open(os.path.join(out, fn), "w") as f:
                f.write(text)
        cfg = copy.deepcopy(cfg0)
        if kind in ("invalid-value", "unserialisable-value", "unencodable-value"):
            key, val = detail
            try:
                cfg[key] = val
            except Exception:
                continue
            if key.startswith("m.") and kind != "unserialisable-value" and cfg.get("m") is None:
                continue
        before = snapshot(out)
        path = os.path.join(out, target)
        spelling = rng.choice(["absolute", "absolute", "relative", "tilde", "file-uri"] + ([] if multifile else ["fsspec-local"]))
        given_path = {"absolute": path, "relative": target, "tilde": "~/" + target, "file-uri": "file://" + path, "fsspec-local": "local://" + path}[spelling]
        old_home = os.environ.get("HOME")
        os.environ["HOME"] = out
        os.chdir(out)
        try:
            o, opens = do_save(p, cfg, given_path, multifile, overwrite, fail_open_at=detail if kind == "oserror-at-write-open" else None, fmt="json" if kind == "unencodable-value" else None)
        finally:
            os.chdir(cwd)
            if old_home is not None:
                os.environ["HOME"] = old_home
        ctx.count(f"st.target_spelling.{spelling}")
        after = snapshot(out)
        ctx.evaluation(("c18", kind, str(detail)[:40], tuple(sorted(feats)), multifile, overwrite, tuple(sorted(existing))))
        ctx.count(f"mon.saves.{kind}")
        ctx.count(f"ev.save.{'ok' if o.accepted else o.exc_type}")
        w = dict(base_w, target_given_as=given_path.replace(out, "<out>"), fault=kind, detail=short(detail), outcome=o.brief(), write_opens=opens, before=sorted(before), after=sorted(after))
        changed = sorted(k for k in before if k in after and after[k] != before[k])
        removed = sorted(k for k in before if k not in after)
        created = sorted(k for k in after if k not in before)
        # (1) unconditional: an existing file is never modified or replaced unless overwrite is requested
        if not overwrite and (changed or removed):
            ctx.violation("save", f"existing-file-modified-without-overwrite/{kind}/{'multifile' if multifile else 'single'}", dict(w, changed=changed, removed=removed))
            continue
        if o.accepted:
            if kind == "unencodable-value":
                ctx.count("ev.save.unencodable_value_written")  # an encoding that can write it: nothing to judge here
                continue
            if kind != "none" and kind != "oserror-at-write-open":
                ctx.violation("save", f"save-succeeded-on-{kind}", dict(w))
                continue
            # (3) success: parsing the saved path reproduces the configuration
            ob = call(p.parse_path, path)
            ctx.count("mon.saved_reparsed")
            if not ob.accepted:
                ctx.violation("save", f"saved-config-does-not-parse/{'multifile' if multifile else 'single'}", dict(w, reparse=ob.brief(), saved=_read(path)))
                continue
            d = same(strip_prov(cfg0, {"cfg"}).as_dict(), strip_prov(ob.value, {"cfg"}).as_dict())
            if d:
                ctx.violation("save", f"saved-config-differs/{'multifile' if multifile else 'single'}", dict(w, at=d[0], why=d[1], saved=_read(path)))
            continue
        # save failed
        refused = o.exc_type == "ValueError" and "Refusing to overwrite" in (o.exc_text or "")
        if refused:
            ctx.count("ev.save.refused_to_overwrite")
            continue  # only clause (1) applies to a refusal; it was checked above
        if kind in ("invalid-value", "unserialisable-value", "unencodable-value"):
            # (2) all-or-nothing: nothing created, truncated or changed
            if created or changed or removed:
                what = "created" if created and not changed else ("truncated-or-changed" if changed else "removed")
                ctx.violation("save", f"failed-save-left-traces/{kind}/{what}/{'multifile' if multifile else 'single'}", dict(w, created=created, changed=changed, removed=removed))
        elif kind == "none":
            # refusal to overwrite (or other legitimate failure) — only clause (1) applies; an unexpected failure is reported
            if not (o.exc_type == "ValueError" and "Refusing to overwrite" in (o.exc_text or "")):
                ctx.violation("save", f"fault-free-save-failed/{o.exc_type}", dict(w))
    # ---- a failed save leaves nothing behind for a later one: fail into `out`, then save successfully elsewhere ----
    if multifile and subfiles and "dc_file" not in feats:  # (an Enum sub-file cannot be saved multi-file at all: known finding)
        for fn in os.listdir(out):
            os.remove(os.path.join(out, fn))
        for fn, text in existing.items():
            with open(os.path.join(out, fn), "w") as f:
                f.write(text)
        out2 = out + "_later"
        shutil.rmtree(out2, ignore_errors=True)
        os.makedirs(out2)
        cfg = copy.deepcopy(cfg0)
        cfg["fr"] = Fragile("boom")
        before = snapshot(out)
        o1, _ = do_save(p, cfg, os.path.join(out, target), True, True)
        o2, _ = do_save(p, copy.deepcopy(cfg0), os.path.join(out2, target), True, False)
        after = snapshot(out)
        ctx.count("mon.failed_then_successful_save_sequences")
        ctx.evaluation(("c18-seq", tuple(sorted(feats)), tuple(sorted(existing))))
        if not o1.accepted and o2.accepted and after != before:
            ctx.violation("save", "later-save-writes-into-directory-of-earlier-failed-save", dict(base_w, failed=o1.brief(), before=sorted(before), after=sorted(after), changed=sorted(k for k in after if before.get(k) != after[k])))
        elif o1.accepted:
            ctx.violation("save", "save-succeeded-on-unserialisable-value", dict(base_w))
        elif not o2.accepted:
            ctx.violation("save", f"fault-free-save-failed/{o2.exc_type}/after-a-failed-save", dict(base_w, outcome=o2.brief()))
        shutil.rmtree(out2, ignore_errors=True)
    # ---- saving back into the directory the configuration was loaded from (overwrite requested), after the program changed
    # values that live in sub-files: the saved path reproduces the configuration as it is now ----
    edits = [(k, v) for k, v in (("pt.x", 77), ("inner.i1", 55), ("m.init_args.a", 66)) if k.split(".")[0] + "_file" in feats and cfg0.get(k.split(".")[0]) is not None]
    if edits and "dc_file" not in feats:
        cfg = copy.deepcopy(cfg0)
        for k, v in rng.sample(edits, rng.randrange(1, len(edits) + 1)):
            cfg[k] = v
        cfg["a"] = 4242
        mf = rng.random() < 0.8
        name = rng.choice(["main.yaml", "main_variant.yaml"])
        o1, _ = do_save(p, cfg, os.path.join(src, name), mf, True)
        ctx.count("mon.save_into_source_directory")
        ctx.evaluation(("c18-inplace", tuple(sorted(feats)), mf, name))
        w = dict(base_w, step="save into the source directory after editing sub-file values", multifile=mf, name=name, edited=short(cfg, 400))
        if not o1.accepted:
            ctx.violation("save", f"fault-free-save-failed/{o1.exc_type}/into-source-directory", dict(w, outcome=o1.brief()))
        else:
            ob = call(build().parse_path, os.path.join(src, name))
            if not ob.accepted:
                ctx.violation("save", f"saved-config-does-not-parse/{'multifile' if mf else 'single'}/into-source-directory", dict(w, reparse=ob.brief(), saved=_read(os.path.join(src, name))))
            else:
                d = same(strip_prov(cfg, ["cfg"]).as_dict(), strip_prov(ob.value, ["cfg"]).as_dict())
                if d:
                    ctx.violation("save", f"saved-config-differs/{'multifile' if mf else 'single'}/into-source-directory", dict(w, at=d[0], why=d[1], saved=_read(os.path.join(src, name))))
    if i < 2:
        ctx.sample(dict(base_w, faults=[(k, short(d, 60)) for k, d in faults]))


def path_content_case(ctx, i, rng):
    """save_path_content: the file a path value points to is saved next to the configuration. Saving into the directory the
    file lives in (overwrite requested) or elsewhere never leaves the user's file changed, and the saved path parses back."""
    from jsonargparse.typing import Path_fr

    d = os.path.join(ctx.workdir, f"pc{i % 6}")
    shutil.rmtree(d, ignore_errors=True)
    os.makedirs(os.path.join(d, "elsewhere"))
    data = os.path.join(d, "file.txt")
    content = f"file content {i}\nsecond line\n"
    with open(data, "w") as f:
        f.write(content)

    def mk():
        q = ArgumentParser(exit_on_error=False)
        q.add_argument("--cfg", action=ActionConfigFile)
        q.add_argument("--the.path", type=Path_fr)
        q.add_argument("--n", type=int, default=1)
        q.save_path_content.add("the.path")
        return q

    q = mk()
    o = call(q.parse_args, [f"--the.path={data}", f"--n={i % 9}"])
    if not o.accepted:
        ctx.inconclusive(f"path-content scenario not accepted: {o.brief()}")
        return
    where = rng.choice(["same-directory", "same-directory", "elsewhere"])
    overwrite = where == "same-directory" or rng.random() < 0.5
    target = os.path.join(d if where == "same-directory" else os.path.join(d, "elsewhere"), "saved.yaml")
    os_, _ = do_save(q, o.value, target, True, overwrite)
    ctx.count("mon.save_path_content")
    ctx.evaluation(("c18-path-content", where, overwrite))
    w = dict(step="save with save_path_content", where=where, overwrite=overwrite, outcome=os_.brief())
    now = _read(data)
    if now != content:
        ctx.violation("save", f"file-referenced-by-a-path-value-changed-by-save/{where}/{'returning' if os_.accepted else 'raising'}", dict(w, before=content, after=now))
        return
    if os_.accepted:
        ob = call(mk().parse_path, target)
        if not ob.accepted or ob.value.n != o.value.n or _read(ob.value.the.path.absolute) != content:
            ctx.violation("save", f"saved-config-differs/path-content/{where}", dict(w, reparse=ob.brief() if not ob.accepted else short(ob.value, 300)))


def _read(path):
    try:
        with open(path) as f:
            return f.read()[:600]
    except OSError as ex:
        return f"<{ex}>"


def run_shard_extra(ctx, i, rng):
    if i % 5 == 1:
        path_content_case(ctx, i, rng)


def run_shard(ctx):
    for i, rng in ctx.cases():
        case(ctx, i, rng)
        run_shard_extra(ctx, i, rng)
