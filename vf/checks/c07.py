"""C07 — equivalent ways of declaring a nested group behave identically.

4-version comparator: one field list is declared as dotted arguments, as a dataclass-typed argument, as
the arguments of a class added under the key, and as an inner parser attached under the key (the
dataclass and the class are written to a real source file). The same inputs must give the same
accept/reject decision, the same nested values and the same dump text."""

from __future__ import annotations

import copy
import json
import os

from jsonargparse import ActionConfigFile, ActionParser, ArgumentParser, Namespace

from vf.checks.c12 import DEFAULTS, TYPES
from vf.gen import programs
from vf.util import call, environ, same, short, strip_prov

HEADER = '''from dataclasses import dataclass, field
from typing import Any, Dict, List, Optional, Tuple, Union, Literal
from jsonargparse.typing import PositiveInt
from vf.fixtures.zoo import Color, Point
'''
FNAMES = ["lr", "name", "n", "flag", "tags", "size", "mode", "x1", "depth", "k"]
FALSY = {"int": "0", "float": "0.0", "bool": "False", "str": "''"}


def gen_fields(rng):
    fields = []
    for nm in rng.sample(FNAMES, rng.randrange(1, 6)):
        ann, vals = rng.choice(TYPES)
        r = rng.random()
        if r < 0.2:
            default = None  # required
        elif r < 0.4 and ann in FALSY:
            default = FALSY[ann]
        else:
            default = rng.choice(DEFAULTS[ann])
        if default == "None" and not ann.startswith("Optional"):
            ann = f"Optional[{ann}]"
        fields.append(dict(name=nm, ann=ann, vals=vals, default=default))
    fields.sort(key=lambda f: f["default"] is not None)  # required first (python syntax for class / dataclass)
    nested = None
    if rng.random() < 0.3:
        nested = dict(name="sub", fields=[dict(name="z", ann="int", vals=[("5", 5)], default="1"), dict(name="w", ann="str", vals=[("q", "q")], default="'w'")], override={"z": "5", "w": "'ov'"} if rng.random() < 0.6 else {},
                      inner=rng.random() < 0.5)  # inner: SubDC's first field is itself a dataclass with an overridden default
    return fields, nested


def dc_default(f):
    d = f["default"]
    if d is None:
        return ""
    if d.startswith(("[", "{")):
        return f" = field(default_factory=lambda: {d})"
    return f" = {d}"


def make_source(fields, nested):
    src = HEADER
    if nested:
        if nested.get("inner"):
            src += "@dataclass\nclass KDC:\n    q: int = 1\n    r: str = 'r'\n"
        src += "@dataclass\nclass SubDC:\n" + ("    kk: KDC = field(default_factory=KDC)\n" if nested.get("inner") else "") + "".join(f"    {f['name']}: {f['ann']} = {f['default']}\n" for f in nested["fields"])
        src += "" if True else ""
    src += "@dataclass\nclass GroupDC:\n"
    req = [f for f in fields if f["default"] is None]
    opt = [f for f in fields if f["default"] is not None]
    for f in req:
        src += f"    {f['name']}: {f['ann']}\n"
    if nested:
        ov = ", ".join(([f"kk=KDC(q=9)"] if nested.get("inner") and nested["override"] else []) + [f"{k}={v}" for k, v in nested["override"].items()])
        src += f"    sub: SubDC = field(default_factory=lambda: SubDC({ov}))\n"
    for f in opt:
        src += f"    {f['name']}: {f['ann']}{dc_default(f)}\n"
    if not fields and not nested:
        src += "    pass\n"
    src += "class GroupCls:\n    def __init__(self, " + ", ".join(
        [f"{f['name']}: {f['ann']}" for f in req]
        + ([f"sub: SubDC = SubDC({', '.join(([f'kk=KDC(q=9)'] if nested.get('inner') and nested['override'] else []) + [f'{k}={v}' for k, v in nested['override'].items()])})"] if nested else [])
        + [f"{f['name']}: {f['ann']} = {f['default']}" for f in opt]
    ) + "):\n        pass\n"
    return src


def build(style, mod, fields, nested, eoe=False, variant=0):
    """variant bit 1: the parts are used on their own before they are put together (the inner parser reads an empty
    environment); bit 2: a first declaration of the group under a key that clashes with an existing option is refused, then
    the group is declared under its own key"""
    p = ArgumentParser(exit_on_error=eoe, prog="app", env_prefix="APP", default_env=False)
    p.add_argument("--cfg", action=ActionConfigFile)
    p.add_argument("--top", type=int, default=0)
    if variant & 2:
        p.add_argument(f"--clash.{fields[0]['name']}", type=int, default=0)

    def add_fields(q, prefix):
        for f in [f for f in fields if f["default"] is None]:
            if f["ann"].startswith("Optional["):
                # signatures: an Optional parameter without default becomes an option defaulting to None
                q.add_argument(f"--{prefix}{f['name']}", type=eval(f["ann"], vars(mod)), default=None)
            else:
                q.add_argument(f"--{prefix}{f['name']}", type=eval(f["ann"], vars(mod)), required=True)
        if nested:
            if nested.get("inner"):
                q.add_argument(f"--{prefix}sub.kk.q", type=int, default=9 if nested["override"] else 1)
                q.add_argument(f"--{prefix}sub.kk.r", type=str, default="r")
            for sf in nested["fields"]:
                d = nested["override"].get(sf["name"], sf["default"])
                q.add_argument(f"--{prefix}sub.{sf['name']}", type=eval(sf["ann"], vars(mod)), default=eval(d, vars(mod)))
        for f in [f for f in fields if f["default"] is not None]:
            q.add_argument(f"--{prefix}{f['name']}", type=eval(f["ann"], vars(mod)), default=eval(f["default"], vars(mod)))

    if style == "dotted":
        add_fields(p, "g.")
    elif style == "dataclass":
        p.add_argument("--g", type=mod.GroupDC)
    elif style == "class":
        p.add_class_arguments(mod.GroupCls, "g")
    else:
        inner = ArgumentParser(exit_on_error=eoe, env_prefix="APP", default_env=False)
        add_fields(inner, "")
        if variant & 1:
            call(inner.parse_env, {})
            call(inner.format_help)
        if variant & 2:
            refused = call(p.add_argument, "--clash", action=ActionParser(parser=inner))
            if refused.accepted:
                raise RuntimeError("clashing ActionParser attachment was accepted")
        p.add_argument("--g", action=ActionParser(parser=inner))
    return p


STYLES = ["dotted", "dataclass", "class", "inner"]


def gen_input(rng, fields, nested):
    """-> (kind, payload per style builder) ; values for a random subset of fields, possibly one invalid"""
    given = {}
    for f in fields:
        if f["default"] is None or rng.random() < 0.5:
            text, val = rng.choice(f["vals"])
            given[f["name"]] = (text, val)
    if nested and rng.random() < 0.4:
        given["sub.z"] = ("7", 7)
    invalid = None
    if rng.random() < 0.3 and fields:
        f = rng.choice(fields)
        bad = {"int": "notint", "float": "nf", "bool": "maybe", "Color": "nope", "PositiveInt": "-5", "List[int]": "[\"x\"]", "Dict[str, int]": "[1]", "Tuple[int, str]": "[1]", "Literal['a', 'b']": "zz"}.get(f["ann"].replace("Optional[", "").rstrip("]") if f["ann"].startswith("Optional[") else f["ann"])
        if rng.random() < 0.4:
            bad = "null"  # null for a field: invalid unless the field is Optional
        if bad is not None:
            given[f["name"]] = (bad, "<invalid>")
            invalid = (f["name"], bad)
    if rng.random() < 0.1:
        given["zz_unknown"] = ("1", 1)
        invalid = ("zz_unknown", "unknown-field")
    return given, invalid


def cfg_obj(given):
    out = {}
    for k, (text, val) in given.items():
        try:
            v = json.loads(text)
        except Exception:
            v = text
        if isinstance(val, str) and not val.startswith(("Color.", "PositiveInt(", "<invalid>")):
            v = val  # a str value stays a str in config (quoted)
        cur = out
        parts = k.split(".")
        for part in parts[:-1]:
            cur = cur.setdefault(part, {})
        cur[parts[-1]] = v
    return out


def run_input(p, channel, given, workdir, n):
    g = cfg_obj(given)
    if channel == "argv-dotted":
        return call(p.parse_args, [f"--g.{k}={t}" for k, (t, v) in given.items()])
    if channel == "argv-dotted-space":
        argv = []
        for k, (t, v) in given.items():
            argv += [f"--g.{k}", t] if not t.startswith("-") else [f"--g.{k}={t}"]
        return call(p.parse_args, argv)
    if channel == "argv-group-json":
        return call(p.parse_args, [f"--g={json.dumps(g)}"])
    if channel == "argv-group-then-dotted":
        items = list(given.items())
        first = dict(items[: len(items) // 2])
        rest = items[len(items) // 2 :]
        return call(p.parse_args, [f"--g={json.dumps(cfg_obj(first))}"] + [f"--g.{k}={t}" for k, (t, v) in rest])
    if channel == "config-string":
        return call(p.parse_string, json.dumps({"g": g}))
    if channel == "cfg-arg":
        return call(p.parse_args, [f"--cfg={json.dumps({'g': g})}"])
    if channel == "object":
        return call(p.parse_object, {"g": copy.deepcopy(g)})
    if channel == "object-dotted":
        return call(p.parse_object, {f"g.{k}": copy.deepcopy(v) for k, v in _flat(g).items()})
    if channel == "env-dotted":
        env = {"APP_G__" + k.replace(".", "__").upper(): t for k, (t, v) in given.items()}
        return call(p.parse_env, env)
    if channel == "env-group":
        return call(p.parse_env, {"APP_G": json.dumps(g)})
    if channel == "env-group+dotted":
        items = list(given.items())
        env = {"APP_G": json.dumps(g)}
        if items:
            k, (t, v) = items[-1]
            alt = t
            env["APP_G__" + k.replace(".", "__").upper()] = alt
        return call(p.parse_env, env)
    raise AssertionError(channel)


def _flat(d, prefix=""):
    out = {}
    for k, v in d.items():
        if isinstance(v, dict) and k == "sub":
            out.update(_flat(v, prefix + k + "."))
        else:
            out[prefix + k] = v
    return out


CHANNELS_ALL4 = ["argv-dotted", "argv-dotted-space", "config-string", "cfg-arg", "object", "object-dotted", "env-dotted"]
CHANNELS_3 = ["argv-group-json", "argv-group-then-dotted", "env-group", "env-group+dotted"]  # dotted style declares no --g option


def case(ctx, i, rng):
    fields, nested = gen_fields(rng)
    src = make_source(fields, nested)
    o = call(programs.write_module, ctx.workdir, src, "c07")
    if not o.accepted:
        ctx.inconclusive(f"generated module does not import: {o.brief()} :: {src[-400:]}")
        return
    mod, path = o.value
    try:
        parsers = {}
        variant = rng.choice([0, 0, 1, 2, 3])
        ctx.count(f"st.declaration_variant.{variant}")
        for st in STYLES:
            ob = call(build, st, mod, fields, nested, False, variant)
            if not ob.accepted:
                ctx.violation("styles", f"declaration-failed/{st}/{ob.exc_type}", dict(source=src[len(HEADER):], outcome=ob.brief(), tb=ob.tb))
                return
            parsers[st] = ob.value
        for rep in range(4):
            given, invalid = gen_input(rng, fields, nested)
            channel = rng.choice(CHANNELS_ALL4 + CHANNELS_3)
            styles = STYLES if channel in CHANNELS_ALL4 else STYLES[1:]
            outs = {st: run_input(parsers[st], channel, given, ctx.workdir, i) for st in styles}
            ctx.evaluation(("c07", channel, tuple((f["ann"], f["default"]) for f in fields), nested is not None, invalid is not None, tuple(sorted(given))))
            ctx.count("mon.style_comparisons")
            ctx.count(f"st.channel.{channel}")
            ctx.count("st.input." + ("invalid" if invalid else "valid"))
            for f in fields:
                ctx.count("st.field." + ("required" if f["default"] is None else ("falsy-default" if f["default"] in FALSY.values() else "default")))
            w = dict(source=src[len(HEADER):], channel=channel, given={k: t for k, (t, v) in given.items()}, invalid=invalid)
            if any(not (o.accepted or o.rejected) for o in outs.values()):
                ctx.observe("escape (C03)", next(o for o in outs.values() if not (o.accepted or o.rejected)).brief())
                continue
            decisions = {st: o.accepted for st, o in outs.items()}
            if len(set(decisions.values())) > 1:
                odd = [st for st, a in decisions.items() if list(decisions.values()).count(a) == 1] or list(decisions)
                acc = [st for st, a in decisions.items() if a]
                what = invalid[1] if invalid else "valid-input"
                what = "null" if what == "null" else ("unknown-field" if what == "unknown-field" else ("invalid-value" if invalid else "valid-input"))
                ctx.violation("styles", f"decision-differs/{chan_family(channel)}/{what}/accepted-by={'+'.join(sorted(acc))}", dict(w, decisions=decisions, outcomes={st: o.brief() for st, o in outs.items()}))
                continue
            if not all(decisions.values()):
                ctx.count("st.all_rejected")
                continue
            ctx.count("st.all_accepted")
            ref_st = styles[0]
            ref = strip_prov(outs[ref_st].value, {"cfg"}).as_dict()
            for st in styles[1:]:
                got = strip_prov(outs[st].value, {"cfg"}).as_dict()
                d = same(ref, got)
                if d:
                    ctx.violation("styles", f"values-differ/{chan_family(channel)}/{ref_st}-vs-{st}/{'nested-default' if 'sub' in d[0] else 'field'}", dict(w, at=d[0], why=d[1], **{ref_st: short(ref, 400), st: short(got, 400)}))
                    break
            else:
                dumps = {st: call(parsers[st].dump, outs[st].value) for st in styles}
                if all(x.accepted for x in dumps.values()):
                    texts = {st: x.value for st, x in dumps.items()}
                    if len(set(texts.values())) > 1:
                        ctx.violation("styles", f"dump-differs/{chan_family(channel)}", dict(w, dumps=texts))
                    else:
                        ctx.count("mon.dumps_identical")
                elif len({x.accepted for x in dumps.values()}) > 1:
                    ctx.violation("styles", "dump-decision-differs", dict(w, outcomes={st: x.brief() for st, x in dumps.items()}))
        if i < 2:
            ctx.sample(dict(source=src[len(HEADER):][:500]))
    finally:
        programs.forget(mod, path)


def chan_family(ch):
    return ch.split("-")[0] + ("-group" if "group" in ch else "")


def run_shard(ctx):
    for k in list(os.environ):
        if k.startswith("APP_"):
            del os.environ[k]
    for i, rng in ctx.cases():
        case(ctx, i, rng)
