"""C01 — a dumped configuration re-parses to the same configuration.

Round-trip comparator over generated parsers x accepted configurations x serialisation routes.
C is always the configuration the parser returned (the probe's own deep copy of it)."""

from __future__ import annotations

import copy
import io
import json
import os

from jsonargparse import ArgumentParser, Namespace

from vf.gen import parsers as P
from vf.gen import types as G
from vf.gen.values import all_hostile, classify_string
from vf.models.conform import strict
from vf.util import call, diff_class, same, same_steps, short, steps_str, strip_prov

ROUTES_YAML = ["dump.yaml", "dump.json", "dump.json_indented", "dump.skip_default", "print_config", "print_config.skip_default", "print_config.comments", "save.single", "save.multifile"]
ROUTES_JSON = ["dump.json", "dump.json_indented", "dump.skip_default", "print_config", "save.single"]


def cfg_dests(spec, prefix=""):
    out = set()
    if spec.get("cfg"):
        out.add(prefix + "cfg")
    if spec.get("sub"):
        for n, s in spec["sub"]["choices"].items():
            out |= cfg_dests(s, prefix + n + ".")
    return out


def has_secret(spec):
    return any(n.extra == "secret" for t in P.arg_types(spec).values() for n in t.walk() if n.kind == "reg")


def make_inputs(rng, spec):
    """-> (object form (nested dict), argv list, chosen subcommand path)"""
    settings = P.gen_settings(rng, spec, fill=0.75, hostile=0.3)
    inputs = P.settings_input(spec, settings)
    obj = P.nest(inputs)
    argv = P.to_argv(inputs)
    if spec.get("sub"):
        names = list(spec["sub"]["choices"])
        name = rng.choice(names)
        sspec = spec["sub"]["choices"][name]
        sobj, sargv = make_inputs(rng, sspec)
        obj[spec["sub"].get("dest", "subcommand")] = name
        obj[name] = sobj
        argv = argv + [name] + sargv
    return obj, argv


def _plain_dicts(x):
    """OrderedDict -> dict, recursively (in Namespace / dict / list / tuple)"""
    import collections

    if isinstance(x, Namespace):
        for k, v in vars(x).items():
            vars(x)[k] = _plain_dicts(v)
        return x
    if isinstance(x, collections.OrderedDict):
        return {k: _plain_dicts(v) for k, v in x.items()}
    if type(x) is dict:
        return {k: _plain_dicts(v) for k, v in x.items()}
    if type(x) is list:
        return [_plain_dicts(v) for v in x]
    if type(x) is tuple:
        return tuple(_plain_dicts(v) for v in x)
    return x


def _as_ordered(obj, types):
    """replace the mappings given for Dict-typed arguments by OrderedDict instances (in place) -> number replaced"""
    import collections

    n = 0
    for name, t in types.items():
        if t.kind == "optional":
            t = t.children[0]
        if t.kind != "dict":
            continue
        cur, parts = obj, name.split(".")
        for part in parts[:-1]:
            cur = cur.get(part) if isinstance(cur, dict) else None
        if isinstance(cur, dict) and type(cur.get(parts[-1])) is dict and cur[parts[-1]]:
            cur[parts[-1]] = collections.OrderedDict(cur[parts[-1]])
            n += 1
    return n


def produce(route, p, C, argv, workdir, n):
    """-> Outcome whose value is the re-parsed configuration (or the failure of some step)."""
    if route.startswith("dump."):
        fmt = route.split(".")[1]
        kw = dict(format="parser_mode", skip_none=False, skip_default=True) if fmt == "skip_default" else dict(format=fmt, skip_none=False)
        o = call(p.dump, C, **kw)
        if not o.accepted:
            return "dump", o, None
        text = o.value
        return "reparse", call(p.parse_string, text), text
    if route.startswith("print_config"):
        flag = route.split(".")[1] if "." in route else ""
        o = call(p.parse_args, ["--print_config" + ("=" + flag if flag else "")] + argv)  # before any subcommand name
        if not (o.kind == "exit" and o.code == 0):
            return "print", o, None
        text = o.stdout
        path = os.path.join(workdir, f"pc{n}.cfg")
        with open(path, "w", encoding="utf-8") as f:
            f.write(text)
        return "reparse", call(p.parse_args, ["--cfg", path]), text
    if route.startswith("save."):
        multi = route.endswith("multifile")
        path = os.path.join(workdir, f"sv{n}.cfg")
        o = call(p.save, C, path, skip_none=False, overwrite=True, multifile=multi)
        if not o.accepted:
            return "save", o, None
        with open(path, encoding="utf-8") as f:
            text = f.read()
        return "reparse", call(p.parse_path, path), text
    raise AssertionError(route)


class LU(tuple):
    """(union node, its value); nullable: the union sits directly under an Optional, so a text that reads as null is
    taken by the Optional before any member"""

    nullable = False


def descend(t, v, steps):
    """Walk the type along the value path. -> (deepest union node, its value, node at the end)."""
    node, val = t, v
    last_union = None
    i = 0
    guard = 0
    while guard < 200:
        guard += 1
        if node is None:
            break
        if node.kind == "optional":
            if val is None:
                break
            last_union = (node, val)
            node = node.children[0]
            continue
        if node.kind == "union":
            under_optional = last_union is not None and last_union[0].kind == "optional" and last_union[0].children[0] is node
            last_union = LU((node, val))
            last_union.nullable = under_optional
            node = G.owner(node, val)
            continue
        if i >= len(steps):
            break
        kind, k = steps[i]
        i += 1
        try:
            if node.kind in ("list", "vtuple") and kind in ("idx", "tup"):
                node, val = node.children[0], val[k]
            elif node.kind == "set":
                node, val = node.children[0], None
                break
            elif node.kind == "tuple" and kind in ("idx", "tup"):
                node, val = node.children[k], val[k]
            elif node.kind == "dict" and kind == "key":
                node, val = node.children[0], val[k]
            elif node.kind == "dataclass" and kind == "key":
                node, val = G.DATACLASS_FIELD_T[node.extra].get(k), (val[k] if isinstance(val, (dict, Namespace)) else None)
            else:
                break
        except Exception:
            break
    return last_union, node


_SINGLE = {}


def single_parser(t):
    key = t.skel + str(id(t.hint))
    if key not in _SINGLE:
        p = ArgumentParser(exit_on_error=False)
        p.add_argument("--k", type=t.hint)
        if len(_SINGLE) > 2000:
            _SINGLE.clear()
        _SINGLE[key] = p
    return _SINGLE[key]


def union_ambiguous(u, v, nullable=False):
    """Is the serialised form of v (as its owning member writes it) read differently by another member?
    -> 'ambiguous' | 'not-ambiguous' | 'undecided'"""
    members = u.children if u.kind == "union" else [u.children[0]]
    own = None
    for ex in (True, False):
        for m in members:
            if own is None and strict(v, m, exact=ex) is None:
                own = m
    if own is None:
        return "undecided"
    o = call(single_parser(own).dump, Namespace(k=copy.deepcopy(v)), format="json", skip_none=False)
    if not o.accepted:
        return "not-ambiguous"
    text = o.value
    back = call(single_parser(own).parse_string, text)
    if not back.accepted or same(back.value.k, v):
        return "not-ambiguous"  # the owner alone does not round trip: a defect of that member type
    if u.kind == "optional" or nullable:
        # Optional[M]: the only other reading is null (for Optional[Union[...]] it comes before the members' readings)
        try:
            raw = json.loads(text)["k"]
            from jsonargparse._loaders_dumpers import json_or_yaml_load

            if raw is None or (isinstance(raw, str) and json_or_yaml_load(raw) is None):
                return "ambiguous"  # the text of the value reads as null, which Optional takes first
        except Exception:
            pass
        if u.kind == "optional":
            return "not-ambiguous"
    for m in members:
        if m is own:
            continue
        om = call(single_parser(m).parse_string, text)
        if om.accepted and om.value.k is not None and same(om.value.k, v):
            return "ambiguous"
    # a None reading: 'null'-like strings are taken by Optional before any member
    return "not-ambiguous"


def string_classes(v):
    out = set()

    def rec(x):
        if isinstance(x, str):
            out.add(classify_string(x))
        elif isinstance(x, dict):
            for k, y in x.items():
                if isinstance(k, str):
                    c = classify_string(k)
                    if c != "plain":
                        out.add("key:" + c)
                rec(y)
        elif isinstance(x, (list, tuple, set)):
            for y in x:
                rec(y)
        elif isinstance(x, Namespace):
            rec(vars(x))
        elif isinstance(x, float) and (x != x or x in (float("inf"), float("-inf"))):
            out.add("nonfinite-float")

    rec(v)
    out.discard("plain")
    return sorted(out)


def localise_failure(route, spec, C0):
    """Which single argument, alone, already fails this route? -> (name, T, value, outcome-kind) or None"""
    fam = route_family(route)
    fmt = "yaml" if fam == "yaml" else "json"
    flat = dict(C0.items()) if isinstance(C0, Namespace) else {}
    types = P.arg_types(spec)
    for key, t in types.items():
        try:
            v = C0[key]
        except Exception:
            continue
        if v is None:
            continue
        r = narrow(t, v, fmt)
        if r:
            return (key,) + r
    return None


def narrow(t, v, fmt):
    """Smallest (sub-type, sub-value) that alone fails the dump->parse round trip. -> (T, value, kind, detail) | None"""
    from vf.checks.c02 import subparts

    p1 = single_parser(t)
    o = call(p1.dump, Namespace(k=copy.deepcopy(v)), format=fmt, skip_none=False)
    if not o.accepted:
        res = (t, v, "dump-raised", o)
    else:
        b = call(p1.parse_string, o.value)
        if not b.accepted:
            res = (t, v, "reparse-rejected", b)
        else:
            d = same_steps(b.value.k, v)
            if not d:
                return None
            res = (t, v, "differs", d)
    try:
        for c, x in subparts(t, v):
            if x is None:
                continue
            r = narrow(c, x, fmt)
            if r:
                return r
        if t.kind == "dict" and t.extra is str:
            for kk, x in v.items():
                r = narrow(G.dict_t(G.INT), {kk: 1}, fmt)
                if r:
                    return (G.T("dictkey", None, "dict-key"), kk, r[2], r[3])
    except Exception:
        pass
    return res


def route_family(route):
    return "json" if ".json" in route else "yaml"


def judge(ctx, route, spec, p, C0, stage, o, text, argv, dests, passed=()):
    variant = {"print_config.comments": ("yaml-comments", "print_config"), "dump.skip_default": ("skip_default", "dump.json" if spec.get("mode") == "json" else "dump.yaml"),
               "print_config.skip_default": ("skip_default", "print_config")}.get(route)
    if variant and variant[1] in passed:
        # the same configuration round trips through the plain route: what fails is specific to the variant
        # (comments: ruyaml's YAML 1.2 writer vs the YAML 1.1 loader; skip_default: comparison with the defaults)
        C1 = strip_prov(o.value, dests) if (stage == "reparse" and o.accepted) else None
        d = same_steps(strip_prov(C0, dests), C1) if C1 is not None else None
        if C1 is None or d:
            what = "differs" if C1 is not None else ("reparse-rejected" if stage == "reparse" else stage + "-failed")
            detail = diff_class((steps_str(d[0]), d[1])) if d else (o.exc_type or o.code)
            if variant[0] == "yaml-comments":
                detail = "any"
            elif d and any(kind == "key" and k == "init_args" for kind, k in d[0]):
                detail = "init_args-of-class-other-than-default"
            ctx.violation("roundtrip", f"{variant[0]}-only/{what}/{detail}", dict(route=route, at=steps_str(d[0]) if d else None, why=d[1] if d else None, spec=P.spec_summary(spec), config=short(C0, 600), text=short(text, 800), outcome=o.brief()))
            return
    if variant and not (stage == "reparse" and o.accepted and same_steps(strip_prov(C0, dests), strip_prov(o.value, dests)) is None):
        # the plain route already fails for this configuration (reported there): a difference in the variant cannot be
        # attributed to the variant
        ctx.count("variant_route_not_judged_because_plain_route_fails")
        return
    mode = spec.get("mode", "yaml")
    fam = route_family(route) if mode == "yaml" else "json"
    types = P.arg_types(spec)
    if stage != "reparse" or not o.accepted:
        what = {"dump": "dump-raised", "print": "print_config-failed", "save": "save-raised", "reparse": "reparse-rejected"}[stage]
        loc = localise_failure(route if mode == "yaml" else "dump.json", spec, C0)
        if loc:
            key, t, v, kind, detail = loc
            lu, node = descend(t, v, detail[0] if kind == "differs" else ())
            if kind == "differs" and lu is not None and union_ambiguous(*lu, nullable=getattr(lu, "nullable", False)) == "ambiguous":
                ctx.count("ambiguous_union_not_judged")
                return
            cls = "+".join(string_classes(v)) or (diff_class((steps_str(detail[0]), detail[1])) if kind == "differs" else "no-hostile-string")
            sig = f"{fam}/{what}/{top_kinds(t)}/{cls}"
            w = dict(route=route, arg=key, hint=t.skel, value=short(v, 500), single_arg_outcome=kind, detail=short(detail if kind == "differs" else detail.brief(), 600), text=short(text, 600), outcome=o.brief())
        else:
            sig = f"{fam}/{what}/not-localised/{o.exc_type or o.code}"
            w = dict(route=route, spec=P.spec_summary(spec), config=short(C0, 800), text=short(text, 800), outcome=o.brief(), tb=o.tb)
        ctx.violation("roundtrip", sig, w)
        return
    C1 = strip_prov(o.value, dests)
    d = same_steps(strip_prov(C0, dests), C1)
    if d is None:
        ctx.count(f"mon.roundtrip_equal.{route}")
        return
    steps, reason = d
    # which argument?
    keypath = []
    t = None
    rest = ()
    for i, (kind, k) in enumerate(steps):
        if kind != "key":
            break
        keypath.append(str(k))
        if ".".join(keypath) in types:
            t = types[".".join(keypath)]
            rest = steps[i + 1 :]
            break
    if t is None:
        sig = f"{fam}/differs/structure/{diff_class((steps_str(steps), reason))}"
        ctx.violation("roundtrip", sig, dict(route=route, at=steps_str(steps), why=reason, spec=P.spec_summary(spec), original=short(C0, 800), reparsed=short(C1, 800), text=short(text, 800)))
        return
    key = ".".join(keypath)
    v = C0[key]
    lu, node = descend(t, v, rest)
    if lu is not None:
        amb = union_ambiguous(*lu, nullable=getattr(lu, "nullable", False))
        if amb == "ambiguous":
            ctx.count("ambiguous_union_not_judged")
            ctx.observe("ambiguous-union", dict(hint=t.skel, value=short(v), at=steps_str(steps)))
            return
        if amb == "undecided":
            ctx.count("union_owner_undecided_not_judged")
            return
    cls = "+".join(string_classes(v)) or "no-hostile-string"
    nk = (node.kind + (":" + str(node.extra) if node.kind == "reg" else "")) if node is not None else "?"
    sig = f"{fam}/differs/{nk}/{diff_class((steps_str(steps), reason))}/{cls}"
    ctx.violation("roundtrip", sig, dict(route=route, arg=key, hint=t.skel, at=steps_str(steps), why=reason, value=short(v, 500), text=short(text, 800)))


def top_kinds(t):
    return t.kind + (":" + str(t.extra) if t.kind == "reg" else "")


def lossless_skip_null(C0, spec):
    return False


def case(ctx, i, rng):
    mode = "json" if rng.random() < 0.15 else "yaml"
    spec = P.gen_spec(rng, nargs=(1, 5), depth=3 if ctx.tier == "quick" else 4, profile="noany", nested=0.4, cfg=True, mode=mode, defaults=0.5, sub=0.25)
    if has_secret(spec):
        ctx.count("specs_skipped_secretstr_masked_by_design")
        return
    o = call(P.build, spec)
    if not o.accepted:
        ctx.observe("parser-build-failed", o.brief())
        return
    p = o.value
    obj, argv = make_inputs(rng, spec)
    via = rng.choice(["object", "argv", "argv"])
    given = copy.deepcopy(obj)
    if via == "object" and rng.random() < 0.3 and _as_ordered(given, P.arg_types(spec)):
        ctx.count("st.ordered_dict_given_for_dict_argument")  # what a Python caller may well hand over for a Dict[...] argument
    o = call(p.parse_object, given) if via == "object" else call(p.parse_args, list(argv))
    ctx.count(f"ev.source.{via}.{'accepted' if o.accepted else 'rejected'}")
    if not o.accepted:
        if not o.rejected:
            ctx.observe("escape_not_judged_here(C03)", o.brief())
        return
    C = o.value
    C0 = _plain_dicts(copy.deepcopy(C))  # a dump cannot say "ordered": the reference holds plain dicts, the dumped object is C
    if spec.get("cfg") and not spec.get("sub") and rng.random() < 0.25:
        # between the accepted configuration and its round trips the program makes a parse that is rejected inside its --cfg,
        # after other settings (of the same keys, other values) were taken from the command line: no concern of the round trip
        _, argv2 = make_inputs(rng, spec)
        ob = call(p.parse_args, list(argv2) + [rng.choice(["--cfg={", "--cfg=/no/such/file.yaml", '--cfg={"zz_unknown": 1}'])])
        ctx.count("st.rejected_parse_between_accept_and_round_trip" + ("" if ob.rejected else ".not-rejected"))
    dests = cfg_dests(spec)
    types = P.arg_types(spec)
    for k, t in types.items():
        try:
            if C0[k] is not None:
                for kind in t.kinds():
                    ctx.count(f"st.value_kind.{kind}")
        except Exception:
            pass
    routes = ROUTES_YAML if mode == "yaml" else ROUTES_JSON
    passed = set()
    for n, route in enumerate(routes):
        if route.startswith("print_config") and via != "argv":
            continue
        Cin = copy.deepcopy(C)
        stage, ro, text = produce(route, p, Cin, argv, ctx.workdir, n)
        ctx.count(f"mon.route.{route}")
        ctx.evaluation(("rt", route, tuple(sorted(t.skel for t in types.values())), via, tuple(string_classes(C0))))
        before = ctx.counters["violations_recorded"] + ctx.counters["ambiguous_union_not_judged"]
        judge(ctx, route, spec, p, C0, stage, ro, text, argv, dests, passed)
        if ctx.counters["violations_recorded"] + ctx.counters["ambiguous_union_not_judged"] == before:
            passed.add(route)
    if i < 3:
        ctx.sample(dict(spec=P.spec_summary(spec), via=via, argv=argv[:8], config=short(C0, 400)))


def loader_dumper_pairs(ctx):
    """Second oracle: the dumper must quote exactly the strings the loader would not read back as str."""
    from jsonargparse._loaders_dumpers import yaml_dump, yaml_load

    for s, cls in all_hostile():
        for shape, data in (("value", {"k": s}), ("list-item", {"k": [s]}), ("key", {s: 1})):
            if shape == "key" and s == "":
                continue
            try:
                text = yaml_dump(data)
                back = yaml_load(text)
            except Exception as ex:
                ctx.violation("loader-dumper", f"yaml/pair/{shape}/raised-{type(ex).__name__}/{cls}", dict(string=s))
                continue
            ctx.count("mon.loader_dumper_pairs")
            ctx.evaluation(("pair", shape, s))
            if same(back, data):
                ctx.violation("loader-dumper", f"yaml/pair/{shape}/{diff_class(same(back, data))}/{cls}", dict(string=s, text=text, back=short(back)))


def run_shard(ctx):
    if ctx.shard == 0 and ctx.replay is None:
        loader_dumper_pairs(ctx)
    for i, rng in ctx.cases():
        case(ctx, i, rng)
