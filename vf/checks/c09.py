"""C09 — a parser's answers do not depend on what it was asked before.

History differential: every step of a generated operation history is executed on a long-lived parser
and on a freshly built identical parser; the outcomes (result / ArgumentError text / exit status with
stdout and stderr) must be equal. Histories are biased towards state-setting operations that fail,
followed by operations that would read such state."""

from __future__ import annotations

import copy
import json
import os
import pickle
import re
import struct
from typing import Callable, Dict, List, Optional, Union

from jsonargparse import ActionConfigFile, ArgumentParser, Namespace, lazy_instance

from vf.fixtures import zoo, zoo16
from vf.util import call, environ, short, strip_prov

ADDR = re.compile(r"0x[0-9a-fA-F]+")



def _kind_order(kind):
    """step kinds in a signature: the ones a known finding is keyed by come first, so the 120 character cut keeps them"""
    return (0 if kind.startswith("print_shtab") else 1, kind)

class PartOrFactory:
    """a signature-derived parameter that takes an object or a factory of objects"""

    def __init__(self, part: Union[zoo.Base, Callable[[int], zoo.Base]] = None, n: int = 0):
        self.part, self.n = part, n


def _attr_of(obj):
    return obj.attr


def make_parser(variant, eoe, workdir):
    p = ArgumentParser(exit_on_error=eoe, prog="app", env_prefix="APP", default_config_files=[os.path.join(workdir, "defaults.yaml")] if variant["dcf"] else None)
    p.add_argument("--cfg", action=ActionConfigFile)
    p.add_argument("--i", type=int, default=1)
    p.add_argument("--s", type=str, default="s")
    p.add_argument("--l", type=List[int], default=[0])
    p.add_argument("--d", type=Dict[str, int], default={"z": 0})
    p.add_argument("--model", type=zoo.Base, default=lazy_instance(zoo.SubA, a=5))
    p.add_argument("--model_ema", type=zoo.Base, default=lazy_instance(zoo.SubB, c=0.75))
    p.add_argument("--opt", type=Optional[zoo.Base])
    p.add_argument("--dc", type=zoo.Outer, default=zoo.Outer())
    p.add_argument("--odc", type=Optional[zoo.Point])
    p.add_class_arguments(zoo.SubB, "grp")
    p.add_class_arguments(zoo.WithOptDC, "wod")
    p.add_argument("--cb", type=Callable[[int], zoo.Base])
    p.add_class_arguments(PartOrFactory, "pf")
    if variant["links"]:
        p.add_argument("--src", type=int, default=2)
        p.add_argument("--dst", type=int)
        p.link_arguments("src", "dst", compute_fn=lambda v: v * 10)
        p.link_arguments("i", "grp.a")
        # links applied when the classes are built; the constructor of `late` raises for own=13
        p.add_argument("--enc", type=zoo16.C0, default=lazy_instance(zoo16.C0, own=2))
        p.add_argument("--dec", type=zoo16.C1, default=lazy_instance(zoo16.C1, own=3))
        p.add_argument("--late", type=zoo16.C2, default=lazy_instance(zoo16.C2, own=4))
        p.link_arguments("enc.attr", "dec.init_args.f0", apply_on="instantiate")
        p.link_arguments("enc", "late.init_args.f1", compute_fn=_attr_of, apply_on="instantiate")
    if variant["sub"]:
        sc = p.add_subcommands(required=False)
        a = ArgumentParser(exit_on_error=eoe)
        a.add_argument("--cfg", action=ActionConfigFile)
        a.add_argument("--o", type=int, default=3)
        a.add_argument("--m", type=zoo.Base, default=lazy_instance(zoo.SubA))
        sc.add_subcommand("s1", a)
        b = ArgumentParser(exit_on_error=eoe)
        b.add_argument("--q", type=str, default="q")
        sc.add_subcommand("s2", b)
    return p


def make_other(eoe):
    p = ArgumentParser(exit_on_error=eoe, prog="other")
    p.add_argument("--cfg", action=ActionConfigFile)
    p.add_argument("--model", type=zoo.Base, default=lazy_instance(zoo.SubB))
    p.add_argument("--k", type=int, default=0)
    return p


GOOD_ARGV = [
    [], ["--i=3"], ["--s", "x", "--l+=4"], ["--d.k=2"], ["--model=SubB", "--model.c=0.25"], ["--model=vf.fixtures.zoo.SubA", "--model.a=7"], ["--model.init_args.a=9"],
    ["--model_ema=SubA"], ["--model_ema.init_args.c=0.5"], ["--opt=SubA", "--opt.b=zz"], ["--opt.init_args.a=4"], ["--dc.inner.name=nn", "--dc.count=4"], ["--odc.x=3"], ["--odc", '{"x": 1, "y": 2.0}'],
    ["--grp.c=0.125"], ["--cfg", '{"i": 9, "model": {"class_path": "vf.fixtures.zoo.SubB"}}'], ["--cfg", '{"opt": {"class_path": "vf.fixtures.zoo.SubReq", "init_args": {"need": 1}}}'],
    ["--model=SubA", "--model=SubB"], ["--opt=SubList", "--opt.items=[1]"], ["--wod.d.x=5", "--wod.d.y=2.5"], ["--wod.d", '{"y": 3.0}'], ["--wod.d.y=4.0"], ["--cfg", "CFGFILE"], ["--model", '{"init_args": {"a": 3}}'],
]
BAD_ARGV = [
    ["--i=x"], ["--zz=1"], ["--model=Unrelated"], ["--model=vf.fixtures.zoo.BadDefault"], ["--opt=BadDefault"], ["--model.init_args.zz=1"], ["--cfg", '{"i": "x"}'], ["--cfg", "{"], ["--cfg", "/no/such.yaml"],
    ["--print_config", "--i=x"], ["--print_config", "--model=BadDefault"], ["--model=SubB", "--cfg", '{"model": {"init_args": {"zz": 1}}}'], ["--dc.inner.color=nope"], ["--l+=x"], ["--d.k=x"],
    ["--model=SubB", "--cfg", "{"], ["--opt=SubA", "--cfg", '{"zz": 1}'], ["--model_ema=SubA", "--model_ema.zz=1"], ["--odc.x=bad"], ["--model=SubReq"],
]
EXIT0_ARGV = [["--print_shtab=bash"], ["--cb.help=SubA"], ["--cb.help", "SubB"], ["--help"], ["--print_config"], ["--print_config=skip_default"], ["--model.help"], ["--model.help", "SubB"], ["--opt.help=SubA"], ["--print_config", "--model=SubB"], ["--print_config=comments"]]
SUB_ARGV = [["s1"], ["s1", "--o=5"], ["s2", "--q=z"], ["s1", "--m=SubB"], ["s1", "--print_config"], ["s1", "--o=x"], ["s1", "--print_config", "--o=x"], ["s1", "--help"], ["s1", "--cfg", '{"o": 7}'], ["s1", "--m=BadDefault"], ["--i=2", "s2"]]
OBJECTS = [
    {"i": 4}, {"model": {"init_args": {"a": 8}}}, {"opt": {"init_args": {"a": 2}}}, {"model": {"class_path": "vf.fixtures.zoo.SubB", "init_args": {"c": 0.5}}}, {"dc": {"count": 7}}, {"odc": {"x": 5}},
    {"wod": {"d": {"y": 7.0}}}, {"wod": {"d": {"x": 6}}}, {"i": "x"}, {"zz": 1}, {"model": {"class_path": "vf.fixtures.zoo.BadDefault"}}, {"model": {"init_args": {"zz": 1}}}, {"opt": {"class_path": "vf.fixtures.zoo.SubA", "init_args": {"b": "k"}}}, {"model_ema": {"init_args": {"a": 1}}},
]
ENVS = [{}, {"APP_I": "6"}, {"APP_I": "x"}, {"APP_MODEL": "SubB"}, {"APP_CFG": '{"s": "env"}'}, {"APP_CFG": "{"}, {"APP_MODEL": "BadDefault"}]


def normalise(x):
    return ADDR.sub("0x", x) if isinstance(x, str) else x


def outcome_key(o, workdir):
    if o.kind == "return":
        v = o.value
        if isinstance(v, Namespace):
            v = strip_prov(v, {"cfg", "s1.cfg"})
            try:
                v = json.dumps(v.as_dict(), default=lambda z: ADDR.sub("0x", repr(z)), sort_keys=True)
            except Exception:
                v = normalise(repr(v))
        else:
            v = normalise(repr(v))
        return ("return", v, normalise(o.stdout), normalise(o.stderr))
    if o.kind == "exit":
        return ("exit", o.code, normalise(o.stdout), normalise(o.stderr))
    return (o.kind, o.exc_type, normalise(o.exc_text))


SHTAB = re.compile(r"\s*\[--print_shtab \{[^}]*\}\]")


def strip_shtab(key):
    return tuple(re.sub(r"\s+", " ", SHTAB.sub("", x)) if isinstance(x, str) else x for x in key)


class Pristine:
    """Reference outcomes from a process without history. A server process is forked before the shard's first
    parse; for every request it forks a child that builds fresh parsers, runs the one step and reports the
    outcome key, so neither the server nor any reference run has ever seen another call. Outcomes are cached
    per (variant, exit_on_error, step): a reference has no history by construction, so it is a function of those."""

    def __init__(self, workdir):
        self.cache = {}
        self.forks = 0
        req_r, self.req_w = os.pipe()
        self.res_r, res_w = os.pipe()
        self.pid = os.fork()
        if self.pid == 0:
            try:
                os.close(self.req_w)
                os.close(self.res_r)
                built = {}  # parsers constructed, never asked anything: construction is not part of a call history
                while True:
                    msg = _recv(req_r)
                    if msg is None:
                        break
                    variant, eoe, step = msg
                    bk = (tuple(sorted(variant.items())), eoe)
                    if bk not in built:
                        built[bk] = (make_parser(variant, eoe, workdir), make_other(eoe))
                    child = os.fork()
                    if child == 0:
                        code = 0
                        try:
                            factory = lambda: make_parser(variant, eoe, workdir)  # noqa: E731
                            o = run_step(built[bk][0], built[bk][1], step, workdir, factory)
                            _send(res_w, ("ok", outcome_key(o, workdir)))
                        except BaseException as ex:  # noqa: BLE001
                            _send(res_w, ("error", repr(ex)))
                            code = 1
                        os._exit(code)
                    os.waitpid(child, 0)
            finally:
                os._exit(0)
        os.close(req_r)
        os.close(res_w)

    def outcome(self, variant, eoe, step):
        key = pickle.dumps((sorted(variant.items()), eoe, step))
        if key not in self.cache:
            _send(self.req_w, (variant, eoe, step))
            self.cache[key] = _recv(self.res_r)
            self.forks += 1
        return self.cache[key]

    def close(self):
        try:
            os.close(self.req_w)
            os.waitpid(self.pid, 0)
        except OSError:
            pass


def _send(fd, obj):
    data = pickle.dumps(obj)
    os.write(fd, struct.pack("<I", len(data)))
    view = memoryview(data)
    while view:
        n = os.write(fd, view[:65536])
        view = view[n:]


def _recv(fd):
    head = b""
    while len(head) < 4:
        chunk = os.read(fd, 4 - len(head))
        if not chunk:
            return None
        head += chunk
    (n,) = struct.unpack("<I", head)
    data = b""
    while len(data) < n:
        chunk = os.read(fd, n - len(data))
        if not chunk:
            return None
        data += chunk
    return pickle.loads(data)


TEMPLATE = [None]  # which dedicated history template the last gen_history call used


def gen_history(rng, variant, maxlen):
    n = rng.randrange(2, maxlen + 1)
    hist = []
    readers = [o for o in OBJECTS if all(isinstance(v, dict) and set(v) == {"init_args"} for v in o.values())]
    TEMPLATE[0] = None
    r0 = rng.random()
    if r0 < 0.08:
        TEMPLATE[0] = "print_config_with_exit0_option_then_parses"
        # dedicated: a command line that asks for the config to be printed and then ends in another print-and-exit option
        # (help of the parser, of a subcommand, of a class), followed by ordinary parses
        tails = [["--help"], ["--model.help"], ["--model.help", "SubB"], ["--cb.help=SubA"], ["--opt.help=SubA"]]
        first = ["--print_config"] + rng.choice(tails)
        if variant["sub"] and rng.random() < 0.5:
            first = rng.choice([["--print_config", "s1", "--help"], ["s1", "--print_config", "--help"], ["s1", "--print_config", "--m.help", "SubB"]])
        hist.append(("parse_args", first))
        for _ in range(rng.randrange(2, 5)):
            r = rng.random()
            if r < 0.4:
                hist.append(("parse_args", rng.choice(GOOD_ARGV + (SUB_ARGV[:4] if variant["sub"] else []))))
            elif r < 0.6:
                hist.append(("parse_object", rng.choice(OBJECTS[:8]), False))
            elif r < 0.75:
                hist.append(("parse_string", json.dumps(rng.choice(OBJECTS[:8])), False))
            elif r < 0.85:
                hist.append(("parse_env", rng.choice(ENVS[:2])))
            else:
                hist.append(("parse_args", rng.choice(BAD_ARGV)))
        return hist
    if variant["links"] and 0.31 <= r0 < 0.39:
        TEMPLATE[0] = "failed_instantiate_then_instantiate"
        # dedicated: an instantiate_classes call that fails after links were applied (a later constructor raises), then
        # further instantiate_classes calls on the same parser
        for _ in range(rng.randrange(1, 3)):
            hist.append(("instantiate", rng.choice([["--late.init_args.own=13"], ["--late.init_args.own=13", "--enc.init_args.own=6"]])))
        for _ in range(rng.randrange(1, 4)):
            hist.append(("instantiate", rng.choice([[], ["--enc.init_args.own=7"], ["--dec.init_args.own=5"], ["--i=3"]])))
        return hist
    if r0 < 0.16:
        TEMPLATE[0] = "union_of_class_and_factory"
        # dedicated: a parameter typed Union[Class, Callable[[int], Class]] given values only one of the members takes, in turn
        only_factory = [["--pf.part=SubReq"], ["--pf.part", '{"class_path": "vf.fixtures.zoo.SubReq"}']]
        only_object = [["--pf.part=SubReq", "--pf.part.need=4"], ["--pf.part=SubA", "--pf.part.a=3"], ["--pf.part", '{"class_path": "vf.fixtures.zoo.SubReq", "init_args": {"need": 2}}'], ["--pf.part.help", "SubReq"], ["--pf.part.help", "SubA"]]
        both = [["--pf.part=SubA", "--pf.part.b=w"], ["--pf.n=3"]]
        for _ in range(rng.randrange(3, 7)):
            hist.append(("parse_args", rng.choice(rng.choice([only_factory, only_object, only_object, both]))))
        return hist
    if r0 < 0.31:
        TEMPLATE[0] = "help_then_readers"
        # dedicated: a help / print step (which renders defaults, also those of the default config files), then only steps
        # that read what the parser knows: a leftover of the rendering shows in the first of them that consults it
        hist.append(("parse_args", rng.choice([["--help"], ["--model.help"], ["--model.help", "SubB"], ["--print_config"], ["--opt.help=SubA"], ["--cb.help=SubA"]])))
        for _ in range(rng.randrange(2, 5)):
            r = rng.random()
            if r < 0.45:
                op = rng.choice(["parse_object", "parse_string"])
                obj = rng.choice(readers)
                hist.append((op, obj if op == "parse_object" else json.dumps(obj), rng.random() < 0.6))
            elif r < 0.6:
                hist.append(("parse_args", ["--print_config"]))
            elif r < 0.7:
                hist.append(("get_defaults",))
            elif r < 0.8:
                hist.append(("dump", rng.choice(GOOD_ARGV[:12]), rng.choice([{}, {"skip_default": True}])))
            elif r < 0.9:
                hist.append(("parse_args", rng.choice(GOOD_ARGV)))
            else:
                hist.append(("parse_args", ["--help"]))
        return hist
    for k in range(n):
        r = rng.random()
        # bias: failing / state-setting steps early, reading steps later
        if k and rng.random() < 0.3:
            # a step that relies on what is known about a class-typed key without naming the class: the reader of leaked state
            op = rng.choice(["parse_object", "parse_object", "parse_string"])
            obj = rng.choice(readers)
            hist.append((op, obj if op == "parse_object" else json.dumps(obj), rng.random() < 0.5))
        elif r < 0.30:
            pool = GOOD_ARGV + (SUB_ARGV[:4] if variant["sub"] else [])
            hist.append(("parse_args", rng.choice(pool)))
        elif r < 0.48:
            pool = BAD_ARGV + ([a for a in SUB_ARGV if "x" in "".join(a) or "BadDefault" in "".join(a)] if variant["sub"] else [])
            hist.append(("parse_args", rng.choice(pool)))
        elif r < 0.56:
            pool = EXIT0_ARGV + ([["s1", "--print_config"], ["s1", "--help"]] if variant["sub"] else [])
            hist.append(("parse_args", rng.choice(pool)))
        elif r < 0.66:
            hist.append(("parse_object", rng.choice(OBJECTS), rng.random() < 0.3))
        elif r < 0.70:
            hist.append(("parse_string", json.dumps(rng.choice(OBJECTS)), rng.random() < 0.3))
        elif r < 0.72:
            hist.append(("parse_path", json.dumps(rng.choice(OBJECTS))))
        elif r < 0.77:
            hist.append(("parse_env", rng.choice(ENVS)))
        elif r < 0.81:
            hist.append(("get_defaults",))
        elif r < 0.86:
            hist.append(("dump", rng.choice(GOOD_ARGV[:12]), rng.choice([{}, {"skip_default": True}, {"format": "json"}])))
        elif r < 0.89:
            hist.append(("validate", rng.choice(GOOD_ARGV[:12])))
        elif r < 0.93:
            hist.append(("instantiate", rng.choice(GOOD_ARGV[:12])))
        elif r < 0.95:
            hist.append(("parse_args_namespace", rng.choice([Namespace(model=Namespace(class_path="vf.fixtures.zoo.SubA", init_args=Namespace(zz=1))), Namespace(i=7), Namespace(opt=Namespace(class_path="vf.fixtures.zoo.BadDefault"))])))
        else:
            hist.append(("other_parser", rng.choice([["--model=BadDefault"], ["--k=x"], ["--model=SubA", "--cfg", "{"], ["--print_config", "--k=x"], ["--k=1"], ["--help"]])))
    return hist


def run_step(p, other, step, workdir, fresh_factory):
    op = step[0]
    cfgfile = os.path.join(workdir, "good.yaml")
    if op == "parse_args":
        argv = [cfgfile if a == "CFGFILE" else a for a in step[1]]
        return call(p.parse_args, argv)
    if op == "parse_object":
        return call(p.parse_object, copy.deepcopy(step[1]), **({"defaults": False} if step[2] else {}))
    if op == "parse_string":
        return call(p.parse_string, step[1], **({"defaults": False} if step[2] else {}))
    if op == "parse_path":
        pth = os.path.join(workdir, "step.json")
        with open(pth, "w") as f:
            f.write(step[1])
        return call(p.parse_path, pth)
    if op == "parse_env":
        return call(p.parse_env, dict(step[1]))
    if op == "get_defaults":
        return call(p.get_defaults)
    if op == "parse_args_namespace":
        return call(p.parse_args, [], namespace=copy.deepcopy(step[1]))
    if op == "other_parser":
        return call(other.parse_args, list(step[1]))
    # ops that take a configuration: produced by a *fresh* parser so that both sides get the same input
    cfg_o = call(fresh_factory().parse_args, list(step[1]))
    if not cfg_o.accepted:
        return cfg_o
    cfg = cfg_o.value
    if op == "dump":
        return call(p.dump, copy.deepcopy(cfg), **step[2])
    if op == "validate":
        return call(p.validate, copy.deepcopy(cfg))
    if op == "instantiate":
        o = call(p.instantiate_classes, copy.deepcopy(cfg))
        if o.accepted:
            o.value = Namespace(types=sorted(f"{k}:{type(v).__name__}:{getattr(v, 'a', None)}:{getattr(v, 'c', None)}:{getattr(v, 'kw', None)}" for k, v in o.value.items()))
        return o
    raise AssertionError(op)


def step_kind(step, o):
    op = step[0]
    if op == "parse_args":
        a = " ".join(step[1])
        if "--print_shtab" in a:
            return "print_shtab"
        if "--print_config" in a:
            return "print_config" + ("-fail" if not (o.kind == "exit" and o.code == 0) else "")
        if "help" in a:
            return "help"
    return op + ("" if o.accepted else "-fail")


def case(ctx, i, rng):
    variant = dict(links=rng.random() < 0.5, sub=rng.random() < 0.5, dcf=rng.random() < 0.4)
    eoe = rng.random() < 0.4
    wd = ctx.workdir
    with open(os.path.join(wd, "defaults.yaml"), "w") as f:
        f.write("s: from_default_file\nopt:\n  class_path: vf.fixtures.zoo.SubA\n")
    with open(os.path.join(wd, "good.yaml"), "w") as f:
        f.write("i: 11\nmodel:\n  class_path: vf.fixtures.zoo.SubB\n  init_args:\n    c: 0.5\n")
    factory = lambda: make_parser(variant, eoe, wd)  # noqa: E731
    long_lived = factory()
    other = make_other(eoe)
    hist = gen_history(rng, variant, 6 if ctx.tier == "quick" else 12)
    if TEMPLATE[0]:
        ctx.count(f"st.history.{TEMPLATE[0]}" + (".default_config_file" if variant["dcf"] else ""))
    prev_kind = "start"
    shtab_reported = False
    ctx.evaluation(("c09", tuple(sorted(variant.items())), eoe, short(hist, 3000)))
    for k, step in enumerate(hist):
        zoo.CALLS.clear()
        o_long = run_step(long_lived, other, step, wd, factory)
        zoo.CALLS.clear()
        o_fresh = run_step(factory(), make_other(eoe), step, wd, factory)
        kind = step_kind(step, o_fresh)
        ctx.count("mon.steps_compared")
        ctx.count(f"st.op.{kind}")
        ctx.count(f"st.pair.{prev_kind.split('-')[0]}>{kind.split('-')[0]}")
        if not o_fresh.accepted:
            ctx.count("st.failing_steps")
        a, b = outcome_key(o_long, wd), outcome_key(o_fresh, wd)
        if a != b and strip_shtab(a) == strip_shtab(b):
            # only the usage text differs, by the --print_shtab option that the first parse_args adds to the parser
            if not shtab_reported:
                ctx.violation("history", "usage-differs/print_shtab-option-added-by-first-parse_args", dict(history=[short(s, 200) for s in hist[: k + 1]], step=k, reused_parser=short(a[-1], 300), fresh_parser=short(b[-1], 300)))
                shtab_reported = True
            a = b
        if a != b:
            # first diverging step: signature = (kind of this step, kinds of the previous steps that could have set state)
            before = [step_kind(s, call(lambda: None)) if False else s[0] for s in hist[:k]]
            failing_before = sorted({kd for kd in ctx._c09_kinds[-k:]} if k else [])
            sig = f"diverges-at/{kind}/after/" + "+".join(sorted(set(ctx._c09_kinds[-k:]), key=_kind_order) if k else ["nothing"])[:120]
            ctx.violation("history", sig, dict(variant=variant, exit_on_error=eoe, history=[short(s, 300) for s in hist[: k + 1]], step=k, reused_parser=short(a, 700), fresh_parser=short(b, 700)))
            break
        # the same step in a process that never made another call: state kept outside the parser (module globals,
        # context variables, caches) would influence the fresh parser above just the same
        status, ref = ctx._c09_pristine.outcome(variant, eoe, step)
        ctx.count("mon.steps_compared_with_pristine_process")
        if status != "ok":
            ctx.inconclusive(f"pristine reference failed: {short(ref, 300)}")
            break
        if strip_shtab(tuple(ref)) != strip_shtab(b):
            sig = f"process-state-diverges-at/{kind}/after/" + ("+".join(sorted(set(ctx._c09_kinds[-k:]), key=_kind_order)) if k else "earlier-cases-only")[:120]
            ctx.violation("history", sig, dict(variant=variant, exit_on_error=eoe, history=[short(s, 300) for s in hist[: k + 1]], step=k, fresh_parser_after_history=short(b, 700), fresh_parser_in_pristine_process=short(ref, 700)))
            break
        ctx._c09_kinds.append(kind)
        prev_kind = kind
    if i < 2:
        ctx.sample(dict(variant=variant, exit_on_error=eoe, history=[short(s, 200) for s in hist]))


def run_shard(ctx):
    for k in list(os.environ):
        if k.startswith(("APP_", "OTHER_")):
            del os.environ[k]
    ctx._c09_pristine = Pristine(ctx.workdir)
    try:
        for i, rng in ctx.cases():
            ctx._c09_kinds = []
            case(ctx, i, rng)
    finally:
        ctx.count("ev.pristine_reference_processes", ctx._c09_pristine.forks)
        ctx._c09_pristine.close()
