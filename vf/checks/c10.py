"""C10 — parse results are fixed points: validate passes, parse_object(C) == C, dump∘parse∘dump == dump.

Idempotence monitor run on every accepted result of generated parsers x inputs from every channel.
Follow-up calls are made from the original cwd and from a different directory."""

from __future__ import annotations

import copy
import json
import os

from jsonargparse import Namespace

from vf.checks import c01
from vf.gen import parsers as P
from vf.util import call, chdir, diff_class, environ, same_steps, short, steps_str, strip_prov


def sources(rng, spec, p, workdir, n):
    """Yields (channel, Outcome) for one logical input through several channels."""
    obj, argv = c01.make_inputs(rng, spec)
    if spec.get("sub") and len(spec["sub"]["choices"]) >= 2 and "subcommand" in obj and rng.random() < 0.4:
        # settings for a subcommand that is not the one named: they do not survive the parse, and stay away on re-parse
        other = rng.choice([n for n in spec["sub"]["choices"] if n != obj["subcommand"]])
        oobj, _ = c01.make_inputs(rng, spec["sub"]["choices"][other])
        if oobj:
            obj[other] = oobj
    yield "parse_object", call(p.parse_object, copy.deepcopy(obj))
    yield "parse_args", call(p.parse_args, list(argv))
    text = json.dumps(obj)
    yield "parse_string", call(p.parse_string, text)
    path = os.path.join(workdir, f"in{n}.json")
    with open(path, "w") as f:
        f.write(text)
    yield "parse_path", call(p.parse_path, path)
    yield "parse_args_cfg", call(p.parse_args, ["--cfg", path])
    yield "defaults_only", call(p.parse_args, [] if not spec.get("sub") else [list(spec["sub"]["choices"])[0]])
    if not spec.get("sub"):
        yield "parse_object_nodefaults", call(p.parse_object, copy.deepcopy(obj), defaults=False)
        yield "parse_string_nodefaults", call(p.parse_string, text, defaults=False)


def classify_value_at(C0, steps):
    cur = C0
    try:
        for kind, k in steps:
            if isinstance(cur, Namespace):
                cur = cur[str(k)]
            else:
                cur = cur[k]
    except Exception:
        return "?"
    return type(cur).__name__


def check_fixed_point(ctx, spec, p, channel, C, otherdir):
    dests = c01.cfg_dests(spec)
    C0 = copy.deepcopy(C)
    types = P.arg_types(spec)
    kinds = set()
    for k, t in types.items():
        try:
            if C0[k] is not None:
                kinds |= t.kinds()
        except Exception:
            pass
    for kd in kinds:
        ctx.count(f"st.result_kind.{kd}")
    classes = "+".join(c01.string_classes(C0)) or "no-hostile-string"
    ctx.evaluation(("fp", channel, tuple(sorted(t.skel for t in types.values())), classes))
    for where in ("same-cwd", "other-cwd"):
        cm = chdir(otherdir) if where == "other-cwd" else chdir(os.getcwd())
        with cm:
            # 1. validate
            o = call(p.validate, copy.deepcopy(C0)) if not channel.endswith("nodefaults") else call(lambda: None)
            ctx.count("mon.validate")
            if not o.accepted:
                loc = c01.localise_failure("dump.json", spec, C0)
                ctx.violation("fixedpoint", f"validate-rejects-own-result/{channel_family(channel)}/{o.exc_type}", dict(channel=channel, where=where, spec=P.spec_summary(spec), config=short(C0, 800), outcome=o.brief()))
                return
            # 2. parse_object
            kw = {"defaults": False} if channel.endswith("nodefaults") else {}
            o = call(p.parse_object, copy.deepcopy(C0), **kw)
            ctx.count("mon.reparse_object")
            if not o.accepted:
                ctx.violation("fixedpoint", f"parse_object-rejects-own-result/{channel_family(channel)}/{o.exc_type}", dict(channel=channel, where=where, spec=P.spec_summary(spec), config=short(C0, 800), outcome=o.brief()))
                return
            d = same_steps(strip_prov(C0, dests), strip_prov(o.value, dests))
            if d:
                steps, reason = d
                keypath, t, rest = [], None, ()
                for i, (kind, k) in enumerate(steps):
                    if kind != "key":
                        break
                    keypath.append(str(k))
                    if ".".join(keypath) in types:
                        t = types[".".join(keypath)]
                        rest = steps[i + 1 :]
                        break
                node = None
                sig = None
                if t is not None:
                    lu, node = c01.descend(t, C0[".".join(keypath)], rest)
                    if lu is not None and lu[0].kind == "union":
                        # was the value re-read by a member written *earlier* in the Union than the one that produced it?
                        try:
                            lu2, _ = c01.descend(t, o.value[".".join(keypath)], rest)
                            mem = list(lu[0].children)
                            own0 = next((m for m in mem if c01.strict(lu[1], m, exact=True) is None), None)
                            own1 = next((m for m in mem if c01.strict(lu2[1], m, exact=True) is None), None) if lu2 else None
                            if own0 is not None and own1 is not None and mem.index(own1) < mem.index(own0):
                                sig = f"parse_object-changes-own-result/union-earlier-member-rereads/{own0.kind}-to-{own1.kind}"
                        except Exception:
                            pass
                if sig is None and only_empty_namespaces_dropped(strip_prov(C0, dests), strip_prov(o.value, dests), steps):
                    sig = f"parse_object-changes-own-result/empty-namespace-dropped/{'nodefaults' if channel.endswith('nodefaults') else 'defaults'}"
                if sig is None:
                    sig = f"parse_object-changes-own-result/{node.kind if node is not None else 'structure'}/{diff_class((steps_str(steps), reason))}"
                ctx.violation("fixedpoint", sig, dict(channel=channel, where=where, at=steps_str(steps), why=reason, hint=t.skel if t else None, config=short(C0, 800), reparsed=short(o.value, 800)))
                return
    # 3. dump . parse . dump
    if channel.endswith("nodefaults"):
        return  # a sparse configuration is only a fixed point of parsing without defaults (checked above)
    for fmt in ("yaml", "json") if spec.get("mode") == "yaml" else ("json",):
        o1 = call(p.dump, copy.deepcopy(C0), format=fmt, skip_none=False)
        if not o1.accepted:
            ctx.observe("dump-raised (C01's business)", o1.brief())
            return
        ob = call(p.parse_string, o1.value)
        if not ob.accepted:
            loc = c01.localise_failure("dump." + fmt, spec, C0)
            if loc:
                key, t, v, kind, detail = loc
                cls = "+".join(c for c in c01.string_classes(v) if not c.startswith("key:")) or "no-hostile-string"
                sig = f"dump-parse-dump/reparse-rejected/{c01.top_kinds(t)}/{cls}"
            else:
                sig = f"dump-parse-dump/reparse-rejected/not-localised/{ob.exc_type}"
            ctx.violation("fixedpoint", sig, dict(channel=channel, fmt=fmt, first=short(o1.value, 800), outcome=ob.brief()))
            return
        o2 = call(p.dump, ob.value, format=fmt, skip_none=False)
        ctx.count(f"mon.dump_parse_dump.{fmt}")
        if not o2.accepted:
            ctx.violation("fixedpoint", f"second-dump-raised/{o2.exc_type}", dict(channel=channel, first=short(o1.value, 800), outcome=o2.brief()))
            return
        if o1.value != o2.value:
            # which line differs; is the value a set (no canonical order) or a union-ambiguous value?
            l1, l2 = o1.value.splitlines(), o2.value.splitlines()
            diff = next(((a, b) for a, b in zip(l1, l2) if a != b), (None, None))
            dd = same_steps(strip_prov(C0, dests), strip_prov(ob.value, dests))
            cause = "same-config"
            if dd:
                cause = "config-differs(C01)"
            has_set = any(t.has("set") for t in types.values())
            if sorted(l1) == sorted(l2) and has_set:
                cause = "set-order"
            if dd:
                steps, reason = dd
                keypath, t, rest = [], None, ()
                for ii, (kind, k) in enumerate(steps):
                    if kind != "key":
                        break
                    keypath.append(str(k))
                    if ".".join(keypath) in types:
                        t = types[".".join(keypath)]
                        rest = steps[ii + 1 :]
                        break
                if t is not None:
                    lu, _ = c01.descend(t, C0[".".join(keypath)], rest)
                    if lu is not None and c01.union_ambiguous(*lu, nullable=getattr(lu, "nullable", False)) in ("ambiguous", "undecided"):
                        ctx.count("ambiguous_union_not_judged")
                        return
                cls = "+".join(c for c in c01.string_classes(C0) if not c.startswith("key:")) or "no-hostile-string"
                ctx.violation("fixedpoint", f"dump-parse-dump/config-differs/{diff_class((steps_str(steps), reason))}/{cls if 'unicode-break' in cls else 'any'}", dict(channel=channel, fmt=fmt, at=steps_str(steps), why=reason, first=short(o1.value, 600), second=short(o2.value, 600)))
                return
            ctx.violation("fixedpoint", f"dump-parse-dump-not-identical/{fmt}/{cause}", dict(channel=channel, first=short(o1.value, 800), second=short(o2.value, 800), first_diff=diff))
            return


def only_empty_namespaces_dropped(a, b, steps):
    """the two configurations differ at `steps` only by keys of `a` that hold a Namespace without any leaf"""
    try:
        for kind, k in steps:
            a = a[str(k)] if isinstance(a, Namespace) else a[k]
            b = b[str(k)] if isinstance(b, Namespace) else b[k]
        if not (isinstance(a, Namespace) and isinstance(b, Namespace)):
            return False
        ka, kb = set(vars(a)), set(vars(b))
        if kb - ka or not (ka - kb):
            return False
        return all(isinstance(vars(a)[k], Namespace) and not list(vars(a)[k].keys()) for k in ka - kb)
    except Exception:
        return False


def sparse_class_fixed_point(ctx, rng):
    """a sparse configuration (defaults=False: only what the user gave) holding a class spec stays a fixed point of
    defaults=False parsing, also after an unrelated parse failed while class defaults were being added"""
    from jsonargparse import ArgumentParser

    from vf.fixtures import zoo

    p = ArgumentParser(exit_on_error=False)
    p.add_argument("--enc", type=zoo.Base)
    p.add_argument("--n", type=int, default=1)
    cls, given = rng.choice([("SubA", {"b": "w"}), ("SubB", {"c": 0.25}), ("SubList", {"items": [1]}), ("SubA", {"a": 7}), ("Base", {})])
    how = rng.choice(["object", "argv", "string"])
    spec = {"class_path": f"vf.fixtures.zoo.{cls}", "init_args": given}
    if not given:
        del spec["init_args"]  # an empty mapping is the known finding C10-empty-namespace-branch-dropped-on-reparse
    if how == "object":
        o = call(p.parse_object, {"enc": copy.deepcopy(spec)}, defaults=False)
    elif how == "argv":
        o = call(p.parse_args, [f"--enc={json.dumps(spec)}"], defaults=False)
    else:
        o = call(p.parse_string, json.dumps({"enc": spec}), defaults=False)
    if not o.accepted:
        ctx.violation("fixedpoint", f"sparse-class-spec-rejected/{how}", dict(spec=spec, outcome=o.brief()))
        return
    C = o.value
    call(p.parse_args, ["--enc=vf.fixtures.zoo.BadDefault"])
    ctx.count("mon.sparse_class_spec_after_failed_parse")
    ctx.evaluation(("sparse", cls, how))
    o2 = call(p.parse_object, copy.deepcopy(C), defaults=False)
    d = same_steps(C, o2.value) if o2.accepted else ((), o2.brief())
    if d:
        ctx.violation("fixedpoint", "parse_object-changes-own-result/sparse-class-spec/after-failed-parse", dict(how=how, config=short(C, 500), reparsed=short(o2.value, 500) if o2.accepted else o2.brief(), at=steps_str(d[0]) if o2.accepted else None))


def provenance_fixed_points(ctx, i, rng):
    """results that carry provenance (values loaded from their own file, a default config file in force) are fixed points
    like any other: the provenance must not reach validation, serialisers or the subcommand bookkeeping of dump"""
    from typing import Dict

    from jsonargparse import ActionConfigFile, ArgumentParser

    wd = os.path.join(ctx.workdir, f"prov{i % 4}")
    os.makedirs(wd, exist_ok=True)
    with open(os.path.join(wd, "d.json"), "w") as f:
        json.dump({"k": rng.randrange(9), "j": 2}, f)
    with open(os.path.join(wd, "defaults.json"), "w") as f:
        json.dump({"top": 5}, f)

    p = ArgumentParser(exit_on_error=False, default_config_files=[os.path.join(wd, "defaults.json")])
    p.add_argument("--cfg", action=ActionConfigFile)
    p.add_argument("--top", type=int, default=1)
    p.add_argument("--d", type=Dict[str, int], enable_path=True)
    sc = p.add_subcommands(required=rng.random() < 0.5)
    a = ArgumentParser(exit_on_error=False)
    a.add_argument("--x", type=int, default=2)
    sc.add_subcommand("add", a)
    sc.add_subcommand("prune", ArgumentParser(exit_on_error=False))
    argv = rng.choice([["--d", os.path.join(wd, "d.json"), "prune"], ["prune"], ["--d", os.path.join(wd, "d.json"), "add", "--x=3"], ["add"]])
    o = call(p.parse_args, argv)
    ctx.count("mon.provenance_fixed_points")
    ctx.evaluation(("prov", tuple(a_ if not a_.startswith("/") else "<file>" for a_ in argv)))
    if not o.accepted:
        ctx.violation("fixedpoint", f"valid-input-rejected/provenance-scenario/{o.exc_type}", dict(argv=argv, outcome=o.brief()))
        return
    C = o.value
    for name, f in (("validate", lambda: p.validate(copy.deepcopy(C))), ("dump", lambda: p.dump(copy.deepcopy(C))), ("dump.json", lambda: p.dump(copy.deepcopy(C), format="json"))):
        r = call(f)
        if not r.accepted:
            ctx.violation("fixedpoint", f"{name}-rejects-own-result/with-provenance/{r.exc_type}", dict(argv=[a_.replace(wd, "<wd>") for a_ in argv], config=short(C, 500), outcome=r.brief()))
            return
    d1 = call(p.dump, copy.deepcopy(C)).value
    ob = call(p.parse_string, d1)
    if not ob.accepted:
        ctx.violation("fixedpoint", "dump-parse-dump/reparse-rejected/with-provenance", dict(argv=[a_.replace(wd, "<wd>") for a_ in argv], first=d1, outcome=ob.brief()))
        return
    d2 = call(p.dump, ob.value)
    if not d2.accepted or d2.value != d1:
        ctx.violation("fixedpoint", "dump-parse-dump-not-identical/with-provenance", dict(argv=[a_.replace(wd, "<wd>") for a_ in argv], first=d1, second=d2.value if d2.accepted else d2.brief()))


def prefix_named_class_spec(rng, spec):
    """class-typed options whose names are string prefixes of each other (model, model_ema, model_ema2), each with a default
    that carries init_args: a class change on one of them has to discard exactly that option's stale init_args"""
    from jsonargparse import lazy_instance

    from vf.fixtures import zoo
    from vf.gen import types as G

    mk = [lambda: lazy_instance(zoo.SubA, a=rng.randrange(9), b="lz"), lambda: lazy_instance(zoo.SubB, c=0.75, flag=True), lambda: lazy_instance(zoo.SubList, items=[1, 2]), lambda: lazy_instance(zoo.SubReq, need=4)]
    names = rng.sample(["model", "model_ema", "model_ema2", "mod"], rng.choice([2, 3]))
    grp = rng.choice(["", "", "opt."])
    args = [dict(name=grp + n, t=G.CLASS_T, default=rng.choice(mk)(), required=False) for n in names]
    keep = [a for a in spec["args"] if not a["name"].split(".")[-1].startswith("mod") and not (grp and (a["name"] == "opt" or a["name"].startswith("opt.")))][:2]
    if grp:
        keep = [a for a in keep if not a["name"].startswith("opt")]
    return dict(spec, args=args + keep, sub=None)


def channel_family(ch):
    return ch


def case(ctx, i, rng):
    mode = "json" if rng.random() < 0.15 else "yaml"
    spec = P.gen_spec(rng, nargs=(1, 5), depth=3 if ctx.tier == "quick" else 4, profile="noany", nested=0.4, cfg=True, mode=mode, defaults=0.6, sub=0.25)
    if i % 6 == 1:
        spec = prefix_named_class_spec(rng, spec)
        ctx.count("st.prefix_named_class_options_with_defaults")
    if c01.has_secret(spec):
        return
    o = call(P.build, spec)
    if not o.accepted:
        return
    p = o.value
    if i % 7 == 3:
        # a parse that fails while class defaults are added (must not influence the fixed points judged afterwards)
        from jsonargparse import ArgumentParser as _AP

        from vf.fixtures import zoo as _zoo

        q = _AP(exit_on_error=False)
        q.add_argument("--m", type=_zoo.Base)
        call(q.parse_args, ["--m=vf.fixtures.zoo.BadDefault"])
        ctx.count("ev.failing_parse_in_add_sub_defaults_before_case")
    otherdir = os.path.join(ctx.workdir, "elsewhere")
    os.makedirs(otherdir, exist_ok=True)
    if i % 7 == 2:
        sparse_class_fixed_point(ctx, rng)
    if i % 7 == 4:
        provenance_fixed_points(ctx, i, rng)
    results = list(sources(rng, spec, p, ctx.workdir, i))
    if i % 7 == 2:
        # the same failing parse, this time between producing the results and judging them
        from jsonargparse import ArgumentParser as _AP

        from vf.fixtures import zoo as _zoo

        q = _AP(exit_on_error=False)
        q.add_argument("--m", type=_zoo.Base)
        call(q.parse_args, ["--m=vf.fixtures.zoo.BadDefault"])
        ctx.count("ev.failing_parse_in_add_sub_defaults_between_parse_and_reparse")
    for channel, o in results:
        ctx.count(f"ev.{channel}.{'accepted' if o.accepted else 'rejected'}")
        if not o.accepted:
            continue
        check_fixed_point(ctx, spec, p, channel, o.value, otherdir)
    if i < 2:
        ctx.sample(dict(spec=P.spec_summary(spec)))


import dataclasses
from typing import Dict as _Dict, List as _List, Tuple as _Tuple, Union as _Union


@dataclasses.dataclass
class ByIndex:
    key: int
    idx: int = 0


@dataclasses.dataclass
class ByName:
    key: _Union[str, int]
    name: str = "n"


class M10:
    """class whose init_args need type-aware serialisation (an Enum member, a tuple, a path)"""

    def __init__(self, color: "zoo_Color" = None, pair: _Tuple[int, int] = (1, 2), scale: float = 1.0):
        self.color, self.pair, self.scale = color, pair, scale


def _fix_m10():
    from vf.fixtures import zoo

    M10.__init__.__annotations__["color"] = zoo.Color
    M10.__init__.__defaults__ = (zoo.Color.red, (1, 2), 1.0)


_fix_m10()


def simple_fixed_point(ctx, p, C, tag, w):
    """validate / parse_object / dump-parse-dump on one result of a hand-built parser"""
    C0 = copy.deepcopy(C)
    o = call(p.validate, copy.deepcopy(C0))
    if not o.accepted:
        ctx.violation("fixedpoint", f"validate-rejects-own-result/{tag}/{o.exc_type}", dict(w, config=short(C0, 600), outcome=o.brief()))
        return
    o = call(p.parse_object, copy.deepcopy(C0))
    if not o.accepted:
        ctx.violation("fixedpoint", f"parse_object-rejects-own-result/{tag}/{o.exc_type}", dict(w, config=short(C0, 600), outcome=o.brief()))
        return
    d = same_steps(strip_prov(C0), strip_prov(o.value))
    if d:
        ctx.violation("fixedpoint", f"parse_object-changes-own-result/{tag}", dict(w, at=steps_str(d[0]), why=d[1], config=short(C0, 600), reparsed=short(o.value, 600)))
        return
    for fmt in ("yaml", "json"):
        d1 = call(p.dump, copy.deepcopy(C0), format=fmt)
        if not d1.accepted:
            ctx.violation("fixedpoint", f"dump-of-own-result-fails/{tag}/{fmt}/{d1.exc_type}", dict(w, config=short(C0, 600), outcome=d1.brief()))
            return
        o2 = call(p.parse_string, d1.value)
        if not o2.accepted:
            ctx.violation("fixedpoint", f"dump-not-reparsable/{tag}/{fmt}", dict(w, text=d1.value[:600], outcome=o2.brief()))
            return
        d2 = call(p.dump, o2.value, format=fmt)
        if not d2.accepted or d2.value != d1.value:
            ctx.violation("fixedpoint", f"dump-parse-dump-differs/{tag}/{fmt}", dict(w, first=d1.value[:600], second=d2.value[:600] if d2.accepted else d2.brief()))
            return
    ctx.count("mon.simple_fixed_points")


def lenient_member_unions(ctx, i, rng):
    """Unions in which a class (or dataclass) value sits behind a member whose serialiser refuses nothing (Enum, registered
    path type, str), at top level and inside containers; and a container of a Union of dataclasses that share a field name
    with different types, given an item the first member rejects only after it converted that field."""
    from jsonargparse import ArgumentParser
    from jsonargparse.typing import Path_fc

    from vf.fixtures import zoo

    first = rng.choice(["enum", "path", "enum-in-list", "path-in-dict"])
    p = ArgumentParser(exit_on_error=False)
    hint = {"enum": _Union[zoo.Color, zoo.Base, M10], "path": _Union[Path_fc, zoo.Base, M10], "enum-in-list": _List[_Union[zoo.Color, zoo.Base, M10]], "path-in-dict": _Dict[str, _Union[Path_fc, zoo.Base, M10]]}[first]
    p.add_argument("--u", type=hint)
    spec = rng.choice([
        {"class_path": "vf.checks.c10.M10", "init_args": {"color": "green", "pair": [3, 4]}},
        {"class_path": "vf.checks.c10.M10", "init_args": {"color": "blue", "scale": 0.5}},
        {"class_path": "vf.fixtures.zoo.SubList", "init_args": {"items": [1, 2], "t": [3, "q"]}},
        {"class_path": "vf.fixtures.zoo.SubA", "init_args": {"a": rng.randrange(9), "b": "x y"}},
        {"class_path": "vf.fixtures.zoo.SubB", "init_args": {"c": 0.25, "flag": True}},
    ])
    val = {"enum": spec, "path": spec, "enum-in-list": ["red", spec], "path-in-dict": {"k": spec}}[first]
    o = call(p.parse_object, {"u": copy.deepcopy(val)})
    ctx.evaluation(("lenient-union", first, spec["class_path"]))
    ctx.count("st.union_with_lenient_member_before_class")
    w = dict(shape="class-behind-lenient-union-member", hint=str(hint), value=val)
    if not o.accepted:
        ctx.violation("fixedpoint", f"valid-input-rejected/class-behind-lenient-union-member/{o.exc_type}", dict(w, outcome=o.brief()))
    else:
        simple_fixed_point(ctx, p, o.value, f"class-behind-{first.split('-')[0]}-member", w)
    # dataclasses sharing a field name
    q = ArgumentParser(exit_on_error=False)
    cont = rng.choice(["list", "dict", "tuple"])
    q.add_argument("--items", type={"list": _List[_Union[ByIndex, ByName]], "dict": _Dict[str, _Union[ByIndex, ByName]], "tuple": _Tuple[_Union[ByIndex, ByName], int]}[cont])
    item = rng.choice([{"key": "7", "name": "x"}, {"key": "12", "name": "y"}, {"key": 3, "idx": 1}, {"key": "k", "name": "z"}])
    val = {"list": [item, {"key": 1}], "dict": {"a": item}, "tuple": [item, 5]}[cont]
    o = call(q.parse_object, {"items": copy.deepcopy(val)})
    ctx.evaluation(("shared-field", cont, json.dumps(item)))
    ctx.count("st.union_of_dataclasses_sharing_a_field")
    w = dict(shape="union-of-dataclasses-sharing-a-field", container=cont, value=val)
    if not o.accepted:
        ctx.violation("fixedpoint", f"valid-input-rejected/union-of-dataclasses-sharing-a-field/{o.exc_type}", dict(w, outcome=o.brief()))
    else:
        simple_fixed_point(ctx, q, o.value, "union-of-dataclasses-sharing-a-field", w)


def dict_kwargs_strings(ctx, i, rng):
    """string values in the dict_kwargs of a class that takes **kwargs, among them texts that still read as YAML after one load"""
    from jsonargparse import ArgumentParser

    from vf.fixtures import zoo

    p = ArgumentParser(exit_on_error=False)
    p.add_argument("--k", type=zoo.Base)
    v = rng.choice(["plain", "two words", "\"'5'\"", "'true'", "\"'null'\"", "'[1]'", "x: y"])
    o = call(p.parse_object, {"k": {"class_path": "vf.fixtures.zoo.WithDictKwargs", "init_args": {"a": 2}, "dict_kwargs": {"extra": v, "n": 3}}})
    ctx.count("st.dict_kwargs_string_values")
    ctx.evaluation(("dict_kwargs-strings", v))
    if o.accepted:
        simple_fixed_point(ctx, p, o.value, "dict_kwargs-string-value" + ("-quoted-text" if v[:1] in "\"'" else ""), dict(shape="dict_kwargs-strings", value=v))


def hostile_string_fixed_points(ctx):
    """every string of the hostile pool (number / bool / null / date / indicator look-alikes) accepted by a str, List[str]
    and Dict[str, str] argument is a fixed point of dump -> parse -> dump in yaml and json"""
    from jsonargparse import ArgumentParser

    p = ArgumentParser(exit_on_error=False)
    p.add_argument("--s", type=str)
    p.add_argument("--l", type=_List[str])
    p.add_argument("--d", type=_Dict[str, str])
    for s, cls in c01.all_hostile():
        obj = {"s": s, "l": [s, "plain"], "d": {"k": s}}
        if s != "":
            obj["d"][s] = "v"
        o = call(p.parse_object, copy.deepcopy(obj))
        ctx.count("mon.hostile_string_fixed_points")
        ctx.evaluation(("hostile-fp", s))
        if not o.accepted:
            continue
        for fmt in ("yaml", "json"):
            d1 = call(p.dump, o.value, format=fmt)
            o2 = call(p.parse_string, d1.value) if d1.accepted else d1
            d2 = call(p.dump, o2.value, format=fmt) if o2.accepted else o2
            if not (d1.accepted and o2.accepted and d2.accepted and d1.value == d2.value):
                ctx.violation("fixedpoint", f"dump-parse-dump/hostile-string/{fmt}/{cls}", dict(string=s, first=d1.value[:300] if d1.accepted else d1.brief(), second=(d2.value[:300] if d2.accepted else d2.brief())))


def run_shard(ctx):
    if ctx.shard == 0 and ctx.replay is None:
        hostile_string_fixed_points(ctx)
    for i, rng in ctx.cases():
        if i % 4 == 1:
            lenient_member_unions(ctx, i, rng)
            dict_kwargs_strings(ctx, i, rng)
            continue
        case(ctx, i, rng)
