"""C04 — sources override each other in the documented order, left to right.

Reference model: a left fold over the sources (vf.models.fold). Values are tagged by the source that
wrote them, so that a mismatch names the source that wrongly won."""

from __future__ import annotations

import collections
import copy
import json
import os
import types
from typing import Dict, List, Mapping, Sequence, Union

from jsonargparse import ActionConfigFile, ArgumentParser

from vf.models.fold import fold
from vf.util import call, environ, short, strip_prov

KEYS = {
    "a": ("int", 0),
    "s": ("str", "s0"),
    "b": ("bool", False),
    "g.n": ("int", 0),
    "g.m": ("str", "m0"),
    "g.h.k": ("int", 0),
    "l": ("list", [0]),
    "g.l2": ("list", []),
    "d": ("dict", {"z": 0}),
    "od": ("dict", {"z": 0}),  # declared with an OrderedDict as default: a mapping type the library does not copy
    "mp": ("dict", {"z": 0}),  # Mapping with a MappingProxyType default
    "hy_l": ("list", [0]),  # option spelled --hy-l
    "sq": ("list", [0]),  # Sequence with a tuple default
    "ll": ("llist", [[0]]),  # list of lists
    "ul": ("list", [0]),  # Union[int, List[int]]: the scalar member is written first, appends still go to the list
}
ARGV_NAME = {"hy_l": "hy-l"}


def build(default_files, default_env=False, mode="yaml"):
    p = ArgumentParser(exit_on_error=False, prog="app", env_prefix="APP", default_config_files=default_files or None, default_env=default_env, parser_mode=mode)
    p.add_argument("--cfg", action=ActionConfigFile)
    p.add_argument("--a", type=int, default=0)
    p.add_argument("--s", type=str, default="s0")
    p.add_argument("--b", type=bool, default=False)
    p.add_argument("--g.n", type=int, default=0)
    p.add_argument("--g.m", type=str, default="m0")
    p.add_argument("--g.h.k", type=int, default=0)
    p.add_argument("--l", type=List[int], default=[0])
    p.add_argument("--g.l2", type=List[int], default=[])
    p.add_argument("--d", type=Dict[str, int], default={"z": 0})
    p.add_argument("--od", type=Dict[str, int], default=collections.OrderedDict(z=0))
    p.add_argument("--mp", type=Mapping[str, int], default=types.MappingProxyType({"z": 0}))
    p.add_argument("--hy-l", type=List[int], default=[0])
    p.add_argument("--sq", type=Sequence[int], default=(0,))
    p.add_argument("--ll", type=List[List[int]], default=[[0]])
    p.add_argument("--ul", type=Union[int, List[int]], default=[0])
    return p


GEN = collections.Counter()


def gen_assignments(rng, src, n, allow=("plain", "append", "dictitem")):
    """assignments of one source: list of (key, kind, value[, item]); each key at most once per source (a mapping has
    no defined order between 'l' and 'l+' of the same document)"""
    out = []
    for j, key in enumerate(rng.sample(list(KEYS), min(n, len(KEYS)))):
        typ = KEYS[key][0]
        tag = src * 100 + j * 7 + rng.randrange(7)
        if typ == "int":
            out.append((key, "plain", tag))
        elif typ == "str":
            out.append((key, "plain", f"w{tag}"))
        elif typ == "bool":
            out.append((key, "plain", bool(tag % 2)))
        elif typ == "list":
            r = rng.random()
            if key == "ul" and r > 0.7:
                # the scalar member of the Union, also with values that are false in a boolean context
                out.append((key, "plain", rng.choice([0, 0, tag])))
                GEN["st.source.scalar_member_of_union_with_list" + (".falsy" if out[-1][2] == 0 else "")] += 1
            elif r < 0.45 and "append" in allow:
                out.append((key, "append", rng.choice([tag, [tag], [tag, tag + 1], []])))
            else:
                out.append((key, "plain", rng.choice([[tag], [tag, tag + 1], []])))
        elif typ == "llist":
            if rng.random() < 0.5 and "append" in allow:
                out.append((key, "append", rng.choice([[[tag]], [[tag], [tag + 1, tag + 2]], []])))
            else:
                out.append((key, "plain", rng.choice([[[tag]], [[tag, tag + 1], []], []])))
        elif typ == "dict":
            r = rng.random()
            if r < 0.45 and "dictitem" in allow:
                out.append((key, "dictitem", tag, rng.choice(["k", "j", "z", f"i{src}"])))
            else:
                out.append((key, "plain", rng.choice([{"k": tag}, {f"i{src}": tag, "z": tag + 1}, {}])))
    return out


def render_config(rng, assigns, fmt="yaml"):
    """document-ordered mapping; nested keys dotted or nested (only when unambiguous: one assignment per group)"""
    items = []
    for a in assigns:
        key, kind, val = a[0], a[1], a[2]
        k = key + ("+" if kind == "append" else "")
        items.append((k, val))
    # duplicate keys in one YAML mapping are not a thing: keep the last plain per key unless appends in between
    doc = {}
    order = []
    for k, v in items:
        if k in doc and not k.endswith("+"):
            order.remove(k)
        if k in doc and k.endswith("+"):
            # two appends to the same key in one document: merge into one list append (same effect left to right)
            prev = doc[k] if isinstance(doc[k], list) else [doc[k]]
            v = prev + (v if isinstance(v, list) else [v])
            order.remove(k)
        doc[k] = v
        order.append(k)
    # a plain after an append of the same key (or the reverse) inside one document keeps document order: fine
    lines = {k: doc[k] for k in order}
    if fmt == "json" or rng.random() < 0.3:
        return json.dumps(lines)
    import yaml

    return yaml.safe_dump(lines, sort_keys=False)


def effective(assigns):
    """assignments as a config document applies them (after render_config's merging of duplicates)"""
    doc, order = {}, []
    for a in assigns:
        key, kind, val = a[0], a[1], a[2]
        k = (key, kind)
        if k in doc and kind != "append":
            order.remove(k)
        if k in doc and kind == "append":
            prev = doc[k] if isinstance(doc[k], list) else [doc[k]]
            val = prev + (val if isinstance(val, list) else [val])
            order.remove(k)
        doc[k] = val
        order.append(k)
    return [(k[0], k[1], doc[k]) for k in order]


def render_argv(rng, a):
    key, kind, val = a[0], a[1], a[2]
    if kind == "dictitem":
        return rng.choice([[f"--{ARGV_NAME.get(key, key)}.{a[3]}={val}"], [f"--{ARGV_NAME.get(key, key)}.{a[3]}", str(val)]])
    opt = f"--{ARGV_NAME.get(key, key)}" + ("+" if kind == "append" else "")
    text = val if isinstance(val, str) else json.dumps(val)
    return rng.choice([[f"{opt}={text}"], [opt, text]])


def env_name(key):
    return "APP_" + key.replace(".", "__").upper()


def scenario(ctx, i, rng):
    wd = os.path.join(ctx.workdir, f"s{i % 40}")
    import shutil

    shutil.rmtree(wd, ignore_errors=True)
    os.makedirs(os.path.join(wd, "conf.d"))
    sources = []  # (kind, assignments) in precedence order, for the model
    kinds_present = []
    # ---- default config files ----
    default_files = []
    ndef = rng.choice([0, 0, 1, 2, 3])
    src = 1
    if ndef:
        use_glob = rng.random() < 0.5
        names = rng.sample(["b.yaml", "a.yaml", "c.yaml", "0.yaml"], ndef)  # creation order != sorted order
        files = []
        for nm in names:
            assigns = gen_assignments(rng, src, rng.choice([1, 2, 3]), allow=("plain", "append"))
            path = os.path.join("conf.d", nm) if use_glob else nm
            with open(os.path.join(wd, path), "w") as f:
                f.write(render_config(rng, assigns))
            files.append((path, assigns))
            src += 1
        if use_glob:
            default_files = [os.path.join("conf.d", "*.yaml")]
            if rng.random() < 0.4:
                # a literal file listed before the pattern, and a missing one
                assigns = gen_assignments(rng, src, 2, allow=("plain", "append"))
                with open(os.path.join(wd, "zfirst.yaml"), "w") as f:
                    f.write(render_config(rng, assigns))
                default_files = ["zfirst.yaml", "missing.yaml"] + default_files
                sources.append(("default_file", effective(assigns)))
                src += 1
            for path, assigns in sorted(files, key=lambda x: x[0]):
                sources.append(("default_file", effective(assigns)))
            if rng.random() < 0.3:
                # a file that the pattern already matched, listed again after it: it applies again at that position
                path, assigns = rng.choice(files)
                default_files = default_files + [path]
                sources.append(("default_file", effective(assigns)))
                kinds_present.append("default_file_listed_twice")
        else:
            default_files = [p for p, _ in files]
            if rng.random() < 0.3:
                default_files.insert(rng.randrange(len(default_files) + 1), "missing.yaml")
            for path, assigns in files:
                sources.append(("default_file", effective(assigns)))
        kinds_present.append("default_file")
        # decoys that contribute no assignment and must not disturb the others
        if use_glob and rng.random() < 0.25:
            os.makedirs(os.path.join(wd, "conf.d", "adir.yaml"))  # a directory that the pattern matches as well
            kinds_present.append("directory_matched_by_default_pattern")
        if rng.random() < 0.25:
            nm = os.path.join("conf.d", "m_comment.yaml") if use_glob else "comment.yaml"
            with open(os.path.join(wd, nm), "w") as f:
                f.write(rng.choice(["# a: 5\n", "\n# nothing set here\n\n", "---\n# l: [9]\n"]))
            if not use_glob:
                default_files.insert(rng.randrange(len(default_files) + 1), nm)
            kinds_present.append("comment_only_default_file")
    # ---- environment ----
    env = {}
    env_mode = rng.choice(["off", "off", "default_env", "env_kw", "JSONARGPARSE_DEFAULT_ENV"])
    if env_mode != "off":
        if rng.random() < 0.6:
            assigns = gen_assignments(rng, src, rng.choice([1, 2, 3]), allow=("plain", "append"))
            if rng.random() < 0.5:
                pth = os.path.join(wd, "envcfg.yaml")
                with open(pth, "w") as f:
                    f.write(render_config(rng, assigns))
                env["APP_CFG"] = pth
            else:
                env["APP_CFG"] = render_config(rng, assigns, "json")
            sources.append(("env_config", effective(assigns)))
            kinds_present.append("env_config")
            src += 1
        evars = gen_assignments(rng, src, rng.choice([0, 1, 2, 3]), allow=("plain",))
        seen = {}
        for a in evars:
            seen[a[0]] = a
        for key, a in seen.items():
            env[env_name(key)] = a[2] if isinstance(a[2], str) else json.dumps(a[2])
        if seen:
            # environment variables are applied in the parser's argument order; each key once, so order is irrelevant
            sources.append(("env_var", list(seen.values())))
            kinds_present.append("env_var")
        src += 1
    # ---- method and its own source ----
    method = rng.choice(["parse_args"] * 5 + ["parse_env", "parse_string", "parse_object", "parse_path"])
    if method == "parse_env" and env_mode in ("off", "JSONARGPARSE_DEFAULT_ENV"):
        method = "parse_args"
    argv = []
    payload = None
    explicit_env = method == "parse_env" and rng.random() < 0.5
    if method == "parse_env" and explicit_env and rng.random() < 0.3:
        # explicitly given but empty environment
        env = {}
        sources[:] = [s for s in sources if s[0] not in ("env_config", "env_var")]
    if method == "parse_args":
        for _ in range(rng.choice([0, 1, 2, 3, 4, 6])):
            r = rng.random()
            if r < 0.65:
                a = gen_assignments(rng, src, 1)[0]
                argv += render_argv(rng, a)
                sources.append(("argv_option", [a]))
                kinds_present.append("argv_" + a[1])
            else:
                assigns = gen_assignments(rng, src, rng.choice([1, 2, 3]), allow=("plain", "append"))
                if r < 0.83:
                    pth = os.path.join(wd, f"cli{src}.yaml")
                    with open(pth, "w") as f:
                        f.write(render_config(rng, assigns))
                    argv += rng.choice([["--cfg", pth], [f"--cfg={pth}"]])
                    kinds_present.append("argv_cfg_file")
                else:
                    argv += ["--cfg", render_config(rng, assigns, "json")]
                    kinds_present.append("argv_cfg_string")
                sources.append(("argv_config", effective(assigns)))
            src += 1
    elif method in ("parse_string", "parse_object", "parse_path"):
        assigns = gen_assignments(rng, src, rng.choice([1, 2, 3, 4]), allow=("plain", "append"))
        eff = effective(assigns)
        if method == "parse_object":
            payload = {}
            for key, kind, val in eff:
                payload[key + ("+" if kind == "append" else "")] = copy.deepcopy(val)
        else:
            payload = render_config(rng, assigns)
            if method == "parse_path":
                pth = os.path.join(wd, "given.yaml")
                if rng.random() < 0.35:
                    # the config lives in another directory than the process (and the default config files)
                    os.makedirs(os.path.join(wd, "sub"), exist_ok=True)
                    pth = os.path.join("sub", "given.yaml")
                    kinds_present.append("parse_path_in_other_directory")
                with open(os.path.join(wd, pth), "w") as f:
                    f.write(payload)
                payload = pth
        sources.append((method, eff))
        kinds_present.append(method)
    # ---- run ----
    osenv = dict(env)
    if env_mode == "JSONARGPARSE_DEFAULT_ENV":
        osenv["JSONARGPARSE_DEFAULT_ENV"] = "true"
    cwd = os.getcwd()
    os.chdir(wd)
    try:
        with environ(osenv):
            p = build(default_files, default_env=(env_mode == "default_env"))
            kw = {"env": True} if env_mode == "env_kw" else {}

            def run_once():
                if method == "parse_args":
                    return call(p.parse_args, list(argv), **kw)
                if method == "parse_env":
                    if explicit_env:
                        # the environment to use is the mapping given; the process environment holds decoys
                        decoy = {k: ("999" if k != "APP_CFG" else '{"a": 998}') for k in ("APP_A", "APP_G__N", "APP_CFG") if k not in env}
                        with environ(decoy):
                            for k in env:
                                os.environ.pop(k, None)
                            return call(p.parse_env, dict(env))
                    return call(p.parse_env)
                if method == "parse_string":
                    return call(p.parse_string, payload, **kw)
                if method == "parse_object":
                    return call(p.parse_object, copy.deepcopy(payload), **kw)
                return call(p.parse_path, payload, **kw)

            o = run_once()
            o_nd = None
            if method in ("parse_string", "parse_object", "parse_path") and i % 4 == 2 and env_mode != "off":
                # the same call without the parser's defaults (source code defaults and default config files): what the
                # environment and the call itself give is folded in the same order
                o_nd = call(getattr(p, method), copy.deepcopy(payload), defaults=False, **kw)
            if i % 2 == 0:
                call(p.format_help)  # showing the help (with the values of the default config files) is not a source
            # the fold starts from the defaults in the source code every time: the same sources on the same parser again,
            # or only the standing sources (default files, environment) without this call's own
            o_again, again = None, None
            if i % 3 == 0:
                o_again, again = run_once(), "same"
            elif i % 3 == 1 and not (method == "parse_env" and explicit_env):
                o_again, again = call(p.parse_args, [], **kw), "standing"
    finally:
        os.chdir(cwd)
    ctx.count(f"ev.{method}.{o.kind}")
    defaults = {k: copy.deepcopy(v[1]) for k, v in KEYS.items()}
    expected = fold(defaults, [s[1] for s in sources])
    ctx.evaluation(("c04", method, env_mode, tuple(kinds_present), tuple((s[0], tuple((a[0], a[1]) for a in s[1])) for s in sources)))
    for kd in set(kinds_present):
        ctx.count("st.source." + kd)
    for x, y in zip(kinds_present, kinds_present[1:]):
        ctx.count(f"st.pair.{x.split('_')[0]}>{y.split('_')[0]}")
    w = dict(method=method, env_mode=env_mode, default_config_files=default_files, env=env, argv=argv, payload=short(payload, 400), sources=[(k, a) for k, a in sources])
    if not o.accepted:
        ctx.violation("fold", f"valid-sources-rejected/{method}/{o.exc_type or o.code}", dict(w, outcome=o.brief()))
        return
    standing = [s for s in sources if s[0] in ("default_file", "env_config", "env_var")]
    for attempt, oo, exp_, srcs in (("first", o, expected, sources), ("repeated", o_again, expected if again == "same" else fold(defaults, [s[1] for s in standing]), sources if again == "same" else standing)):
        if oo is None:
            continue
        tag = "parse_path-config-in-other-directory/" if attempt == "first" and "parse_path_in_other_directory" in kinds_present and default_files else ""
        if _compare(ctx, oo, exp_, srcs, dict(w, second_call=again) if attempt == "repeated" else w, method, attempt, tag):
            return
    if o_nd is not None:
        given = [s for s in sources if s[0] != "default_file"]
        exp_nd = fold({}, [s[1] for s in given])
        ctx.count("mon.fold_comparisons_without_defaults")
        if not o_nd.accepted:
            ctx.violation("fold", f"no-defaults/valid-sources-rejected/{method}/{o_nd.exc_type or o_nd.code}", dict(w, outcome=o_nd.brief()))
            return
        got = strip_prov(o_nd.value, {"cfg"}).as_dict()
        for key, exp in exp_nd.items():
            cur = got
            for part in key.split("."):
                cur = cur.get(part) if isinstance(cur, dict) else None
            if isinstance(cur, Mapping):
                cur = dict(cur)
            if cur != exp or type(cur) is not type(exp):
                kinds_for_key = [(s[0], a[1]) for s in given for a in s[1] if a[0] == key]
                ctx.violation("fold", f"no-defaults/wrong-final-value/{KEYS[key][0]}/{env_mode}/history=" + ">".join(f"{k}:{kd}" for k, kd in kinds_for_key[-3:]), dict(w, defaults=False, key=key, expected=exp, got=cur, got_all=got))
                return
    if i < 3:
        ctx.sample(dict(method=method, env_mode=env_mode, default_config_files=default_files, env=env, argv=argv, final={k: expected[k] for k in ("a", "l", "d")}))


def _compare(ctx, o, expected, sources, w, method, attempt, tag=""):
    """-> True when a violation was reported"""
    rep = tag + ("" if attempt == "first" else "repeated-on-same-parser/")
    if not o.accepted:
        ctx.violation("fold", f"{rep}valid-sources-rejected/{method}/{o.exc_type or o.code}", dict(w, outcome=o.brief()))
        return True
    got = strip_prov(o.value, {"cfg"}).as_dict()
    ctx.count("mon.fold_comparisons")
    if attempt != "first":
        ctx.count("mon.fold_comparisons_repeated_parse")
    for key in KEYS:
        cur = got
        for part in key.split("."):
            cur = cur.get(part) if isinstance(cur, dict) else None
        exp = expected[key]
        if KEYS[key][0] == "dict" and isinstance(cur, Mapping):
            cur = dict(cur)  # an untouched OrderedDict / MappingProxyType default stays what it is
        if KEYS[key][0] == "list" and isinstance(cur, tuple):
            cur = list(cur)  # an untouched tuple default of a Sequence
        if cur != exp or type(cur) is not type(exp):
            # which source wrote the observed value / which should have
            last = [s[0] for s in sources if any(a[0] == key for a in s[1])]
            kinds_for_key = [(s[0], a[1]) for s in sources for a in s[1] if a[0] == key]
            winner = kinds_for_key[-1] if kinds_for_key else ("defaults", "plain")
            sig = f"{rep}wrong-final-value/{KEYS[key][0]}/last-writer={winner[0]}:{winner[1]}/history=" + ">".join(f"{k}:{kd}" for k, kd in kinds_for_key[-3:])
            ctx.violation("fold", sig, dict(w, key=key, expected=exp, got=cur, expected_all=expected, got_all=got))
            return True
    return False


def run_shard(ctx):
    for k in list(os.environ):
        if k.startswith("APP_"):
            del os.environ[k]
    for i, rng in ctx.cases():
        scenario(ctx, i, rng)
    for k, v in GEN.items():
        ctx.count(k, v)
