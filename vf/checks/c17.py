"""C17 — exactly one subcommand is selected and only its settings survive.

Reference model (written from the statement): at every level the choice is the one named on the command
line, else the one named in config / environment, else the first declared one for which settings were
given, else failure (required) or None (optional); the chosen section holds sub-parser defaults overlaid
by its default config file, environment, config and command line values; no other section exists."""

from __future__ import annotations

import copy
import json
import os

import yaml

from jsonargparse import ActionConfigFile, ArgumentParser

from vf.util import call, environ, same, short, strip_prov

SUBNAMES = ["fit", "test", "run", "a", "get", "items", "pop"]  # the last three are also Namespace method names
FAIL = object()


def gen_tree(rng, depth, maxdepth, path=()):
    node = dict(opts=[], subs={}, required=rng.random() < 0.6, cfg=rng.random() < 0.4, dcf=None, path=path)
    for k in range(rng.randrange(1, 3)):
        node["opts"].append((f"o{len(path)}{k}{'abcd'[len(path)]}", 10 * len(path) + k))
    if rng.random() < 0.25:
        node["dcf"] = {node["opts"][0][0]: 900 + len(path)}
    if depth < maxdepth and (depth == 0 or rng.random() < 0.6):
        for name in rng.sample(SUBNAMES, rng.randrange(1, 5)):
            node["subs"][name] = gen_tree(rng, depth + 1, maxdepth, path + (name,))
    node["dsec"] = {}
    if node["subs"] and rng.random() < 0.3:
        # the default config file also carries sections for (some of) the subcommands, without naming one; the option
        # is one the subcommand's own default config file does not set (their relative order is C04's question)
        for name in rng.sample(list(node["subs"]), rng.randrange(1, min(3, len(node["subs"])) + 1)):
            child = node["subs"][name]
            free = [o for o, _ in child["opts"] if not (child["dcf"] and o in child["dcf"])]
            if free:
                node["dsec"][name] = {free[-1]: 950 + len(path)}
    return node


def build(node, workdir, top=True, tag="t", use_env=True):
    kw = {}
    if node["dcf"] or node["dsec"]:
        fn = os.path.join(workdir, f"dcf_{tag}_{'_'.join(node['path']) or 'top'}.yaml")
        with open(fn, "w") as f:
            yaml.safe_dump(dict(node["dcf"] or {}, **node["dsec"]), f, sort_keys=False)
        kw["default_config_files"] = [fn]
    if top:
        p = ArgumentParser(exit_on_error=False, prog="app", env_prefix="APP", default_env=use_env, **kw)
    else:
        p = ArgumentParser(exit_on_error=False, **kw)
    if node["cfg"] or top:
        p.add_argument("--cfg", action=ActionConfigFile)
    for name, default in node["opts"]:
        p.add_argument("--" + name, type=int, default=default)
    return p


def attach(node, workdir, tag, use_env=True):
    """level order construction as the library requires"""
    top = build(node, workdir, True, tag, use_env)
    level = [(node, top)]
    while level:
        nxt = []
        for n, p in level:
            if n["subs"]:
                sc = p.add_subcommands(required=n["required"])
                for name, child in n["subs"].items():
                    cp = build(child, workdir, False, tag)
                    sc.add_subcommand(name, cp)
                    nxt.append((child, cp))
        level = nxt
    return top


def env_prefix(path):
    return "APP_" + "".join(p.upper() + "__" for p in path)


def gen_inputs(rng, node, depth=0, dsec=None):
    """-> (argv tokens for this level and below, config doc for this level and below, env dict)
    dsec: what the parent's default config file gives for this subcommand"""
    argv, doc, env = [], {}, {}
    for name, default in node["opts"]:
        r = rng.random()
        if dsec and name in dsec and 0.45 <= r < 0.55:
            r = 0.3  # an environment variable against a parent's default config section: C04's question (known finding there)
        if r < 0.25:
            argv.append((name, 5000 + rng.randrange(100)))
        elif r < 0.45:
            doc[name] = 3000 + rng.randrange(100)
        elif r < 0.55:
            env[env_prefix(node["path"]) + name.upper()] = str(4000 + rng.randrange(100))
    sel = None
    if node["subs"]:
        names = list(node["subs"])
        how = rng.choice(["argv", "argv", "config-named", "env-named", "settings-only", "several-settings", "none", "argv-vs-config-disagree", "config-named-plus-other-settings", "env-named-plus-settings-for-other"])
        chosen = rng.choice(names)
        if how == "argv":
            sel = chosen
        elif how == "config-named":
            doc["subcommand"] = chosen
        elif how == "env-named":
            env[env_prefix(node["path"]) + "SUBCOMMAND"] = chosen
        elif how == "env-named-plus-settings-for-other":
            env[env_prefix(node["path"]) + "SUBCOMMAND"] = chosen
            doc["__settings_for__"] = [rng.choice(names)]
        elif how == "settings-only":
            doc["__settings_for__"] = [chosen]
        elif how == "several-settings":
            doc["__settings_for__"] = rng.sample(names, min(len(names), rng.randrange(1, 4)))
        elif how == "argv-vs-config-disagree":
            sel = chosen
            other = rng.choice(names)
            doc["subcommand"] = other
            doc["__settings_for__"] = list({other, chosen}) if rng.random() < 0.5 else [other]
        elif how == "config-named-plus-other-settings":
            doc["subcommand"] = chosen
            doc["__settings_for__"] = rng.sample(names, min(len(names), 2))
        # recurse for the sections that get settings / the chosen one
        wanted = set(doc.get("__settings_for__", []))
        if sel:
            wanted.add(sel)
        if doc.get("subcommand"):
            wanted.add(doc["subcommand"])
        if env.get(env_prefix(node["path"]) + "SUBCOMMAND"):
            wanted.add(env[env_prefix(node["path"]) + "SUBCOMMAND"])
        sub_argv = []
        for name in names:
            if name in wanted:
                a, d, e = gen_inputs(rng, node["subs"][name], depth + 1, node["dsec"].get(name))
                if name == sel:
                    sub_argv = [("__sub__", name)] + a
                    if d and rng.random() < 0.7:
                        doc[name] = d
                    env.update(e)
                elif name in doc.get("__settings_for__", []) or name == doc.get("subcommand"):
                    # settings through the config only (argv cannot address a non-selected subcommand)
                    d2 = dict(d)
                    if not d2 and name in doc.get("__settings_for__", []):
                        d2 = {node["subs"][name]["opts"][0][0]: 3500}
                    if d2 or name in doc.get("__settings_for__", []):
                        doc[name] = d2
                    if name == doc.get("subcommand"):
                        env.update(e)
                else:
                    env.update(e)
        settings_for = doc.pop("__settings_for__", [])
        for s in settings_for:
            if not isinstance(doc.get(s), dict) or not doc.get(s):
                doc[s] = {node["subs"][s]["opts"][0][0]: 3600}
        if doc.get("subcommand") and rng.random() < 0.25:
            # an empty section ("fit:" -> null) for a subcommand other than the one the config names: not settings, and not
            # to survive. (Only with a choice named in the same document: what a null section means when nothing is chosen,
            # or against a default config section of the same name, is not something the statement settles.)
            others = [n for n in names if n not in doc and n != sel and n != doc.get("subcommand") and n not in node["dsec"]]
            if others:
                doc[rng.choice(others)] = None
        argv += sub_argv
    return argv, doc, env


def split_levels(argv_tokens):
    levels, cur = [], []
    sels = []
    for name, val in argv_tokens:
        if name == "__sub__":
            levels.append(cur)
            cur = []
            sels.append(val)
        else:
            cur.append((name, val))
    levels.append(cur)
    return levels, sels


UNSPEC = "unspecified"


def expect(node, levels, sels, doc, env, use_env=True, dsec=None, doc_low=False):
    """doc_low: the document arrives as the config given in the environment, which the individual variables override"""
    res = {}
    here = dict(levels[0]) if levels else {}
    for name, default in node["opts"]:
        v = default
        if node["dcf"] and name in node["dcf"]:
            v = node["dcf"][name]
        if dsec and name in dsec:
            v = dsec[name]
        ev = env.get(env_prefix(node["path"]) + name.upper())
        if doc_low and isinstance(doc, dict) and name in doc:
            v = doc[name]
            if use_env and ev is not None and node["path"]:
                # a subcommand option given both by the environment's config and by its own variable: which of the two the
                # subcommand's parser ranks higher is C04's question (and a known finding there), not judged here
                return UNSPEC
        if use_env and ev is not None:
            v = int(ev)
        if not doc_low and isinstance(doc, dict) and name in doc:
            v = doc[name]
        if name in here:
            v = here[name]
        res[name] = v
    if node["subs"]:
        choice = None
        doc = doc if isinstance(doc, dict) else {}
        if sels:
            choice = sels[0]
        elif doc.get("subcommand"):
            choice = doc["subcommand"]
            if doc_low and use_env and env.get(env_prefix(node["path"]) + "SUBCOMMAND") not in (None, choice):
                return UNSPEC  # named differently by the environment's config and by its variable: the statement does not rank them
        elif use_env and env.get(env_prefix(node["path"]) + "SUBCOMMAND") in node["subs"]:
            choice = env[env_prefix(node["path"]) + "SUBCOMMAND"]
        else:
            with_settings = [s for s in node["subs"] if isinstance(doc.get(s), dict) or s in node["dsec"]]
            if with_settings:
                choice = with_settings[0]
        if choice is None:
            if node["required"]:
                return FAIL
            res["subcommand"] = None
            return res
        res["subcommand"] = choice
        sub = expect(node["subs"][choice], levels[1:] if sels else [[]], sels[1:], doc.get(choice, {}), env, use_env, node["dsec"].get(choice), doc_low)
        if sub is FAIL or sub is UNSPEC:
            return sub
        res[choice] = sub
    return res


def render_argv(levels, sels, cfg_args):
    out = list(cfg_args)
    for i, lvl in enumerate(levels):
        for name, val in lvl:
            out.append(f"--{name}={val}")
        if i < len(sels):
            out.append(sels[i])
    return out


def rule_used(node, sels, doc, env):
    if not node["subs"]:
        return "no-subcommands"
    if sels:
        return "argv-named" + ("+config-disagrees" if _disagrees(node, sels, doc) else "")
    if isinstance(doc, dict) and doc.get("subcommand"):
        return "config-named"
    if env.get(env_prefix(node["path"]) + "SUBCOMMAND"):
        return "env-named"
    if (isinstance(doc, dict) and any(isinstance(doc.get(s), dict) for s in node["subs"])) or node["dsec"]:
        n = sum((isinstance(doc, dict) and isinstance(doc.get(s), dict)) or s in node["dsec"] for s in node["subs"])
        return "first-with-settings" + ("-of-several" if n > 1 else "") + ("+default-config-sections" if node["dsec"] else "")
    return "undeterminable-" + ("required" if node["required"] else "optional")


def _disagrees(node, sels, doc):
    """does the config, at some level, name or give settings for a subcommand other than the one chosen on argv?"""
    cur_node, cur_doc = node, doc
    for sel in sels:
        if not isinstance(cur_doc, dict):
            return False
        if cur_doc.get("subcommand") not in (None, sel):
            return True
        if any(isinstance(cur_doc.get(s), dict) for s in cur_node["subs"] if s != sel):
            return True
        cur_node, cur_doc = cur_node["subs"][sel], cur_doc.get(sel, {})
    return False


def case(ctx, i, rng):
    maxdepth = rng.choice([1, 2, 2, 3])
    tree = gen_tree(rng, 0, maxdepth)
    tag = f"{i % 50}"
    use_env = rng.random() < 0.5  # with env parsing off the environment variables are decoys that must be ignored
    env_after = use_env and rng.random() < 0.4
    o = call(attach, tree, ctx.workdir, tag, use_env and not env_after)
    if o.accepted and env_after:
        o.value.default_env = True  # enabled after the whole tree was built
        ctx.count("st.env.enabled-after-construction")
    if not o.accepted:
        ctx.inconclusive(f"tree construction failed: {o.brief()}")
        return
    p = o.value
    tokens, doc, env = gen_inputs(rng, tree)
    levels, sels = split_levels(tokens)
    channel = rng.choice(["argv", "argv+cfg", "object", "string", "argv+cfgfile", "argv+2cfg", "argv+envcfg"])
    if channel in ("object", "string") and (sels or any(levels)):
        # these channels carry no command line: fold the argv part away
        levels, sels = [[]], []
    if channel == "argv":
        doc_used = {}
    else:
        doc_used = doc
    # the parser reads the environment by default, but this one call is told not to (env=False): decoys again, at every level
    env_kw_off = use_env and rng.random() < 0.25
    kw = {"env": False} if env_kw_off else {}
    if env_kw_off:
        use_env = False
        ctx.count("st.env.default-on-but-call-says-env=False")
    if channel == "argv+envcfg" and use_env and not env_kw_off and rng.random() < 0.5:
        # crafted: the environment names the subcommand at two levels and sets one option of the inner one, the environment's
        # config sets another option of that same inner section
        # (options that a default config file of any level also sets are left out: their order against a config is C04's question)
        two = [(n1, n2) for n1, c1 in tree["subs"].items() for n2, c2 in c1["subs"].items() if len(c2["opts"]) >= 2 and not c2["dcf"] and n2 not in c1["dsec"] and n1 not in tree["dsec"]]
        if two:
            n1, n2 = rng.choice(two)
            c2 = tree["subs"][n1]["subs"][n2]
            (ox, _), (oy, _) = c2["opts"][0], c2["opts"][1]
            doc = doc_used = {n1: {n2: {ox: 3300 + rng.randrange(50)}}}
            env = {env_prefix(()) + "SUBCOMMAND": n1, env_prefix((n1,)) + "SUBCOMMAND": n2, env_prefix((n1, n2)) + oy.upper(): str(4400 + rng.randrange(50))}
            levels, sels = [[]], []
            ctx.count("st.env_names_two_levels_and_env_config_sets_the_inner_section")
    if channel == "argv+envcfg":
        if not use_env or not doc or env_kw_off:
            channel = "argv+cfg"
        else:
            env = dict(env, APP_CFG=json.dumps(doc))  # the document is the config given in the environment
    exp = expect(tree, levels, sels, doc_used, env, use_env, doc_low=channel == "argv+envcfg")
    if exp is UNSPEC:
        ctx.count("cases_skipped_choice_named_differently_by_env_config_and_env_variable")
        return
    with environ(env):
        if channel == "argv":
            o = call(p.parse_args, render_argv(levels, sels, []), **kw)
        elif channel == "argv+envcfg":
            o = call(p.parse_args, render_argv(levels, sels, []), **kw)
        elif channel == "argv+cfg":
            o = call(p.parse_args, render_argv(levels, sels, [f"--cfg={json.dumps(doc)}"] if doc else []), **kw)
        elif channel == "argv+2cfg":
            # the document split over two --cfg: what names / selects first, then the sections (merged left to right)
            first = {k: v for k, v in doc.items() if not isinstance(v, dict)}
            second = {k: v for k, v in doc.items() if isinstance(v, dict)}
            cfgs = ([f"--cfg={json.dumps(first)}"] if first else []) + ([f"--cfg={json.dumps(second)}"] if second else [])
            o = call(p.parse_args, render_argv(levels, sels, cfgs), **kw)
        elif channel == "argv+cfgfile":
            path = os.path.join(ctx.workdir, f"c17_{tag}.yaml")
            with open(path, "w") as f:
                yaml.safe_dump(doc, f, sort_keys=False)
            o = call(p.parse_args, render_argv(levels, sels, ["--cfg", path] if doc else []), **kw)
        elif channel == "object":
            o = call(p.parse_object, copy.deepcopy(doc), **kw)
        else:
            o = call(p.parse_string, json.dumps(doc), **kw)
    rule = rule_used(tree, sels, doc_used, env if use_env else {})
    ctx.count("st.env." + ("on" if use_env else "off-with-decoys"))
    ctx.evaluation(("c17", maxdepth, channel, rule, short(tree, 400), short(doc_used, 300), tuple(sels)))
    ctx.count("mon.tree_comparisons")
    ctx.count(f"st.rule.{rule}")
    if _has_null_section(doc_used):
        ctx.count("st.null_section_of_other_subcommand")
    if _has_dsec(tree, sels, exp):
        ctx.count("st.default_config_sections_for_subcommands")
    ctx.count(f"st.depth.{maxdepth}")
    ctx.count(f"st.channel.{channel}")
    w = dict(default_env=use_env, env_false_given_to_the_call=env_kw_off, channel=channel, tree=short(_tree_summary(tree), 900), argv=render_argv(levels, sels, []), config=doc_used, env=env, rule=rule)
    if not (o.accepted or o.rejected):
        ctx.observe("escape (C03)", o.brief())
        return
    if exp is FAIL:
        if o.accepted:
            ctx.violation("subcommands", f"undeterminable-required-subcommand-accepted/{rule}/{chan_family(channel)}", dict(w, result=short(o.value, 500)))
        return
    if not o.accepted:
        ctx.violation("subcommands", f"valid-selection-rejected/{rule}/{chan_family(channel)}", dict(w, outcome=o.brief(), expected=exp))
        return
    got = strip_prov(o.value, _cfg_dests(tree)).as_dict()
    d = same(got, exp)
    if d:
        at, why = d
        kind = "wrong-choice" if at.endswith("subcommand") else ("extra-or-missing-section" if why.startswith("keys") else "wrong-value")
        ctx.violation("subcommands", f"{kind}/{rule}/{chan_family(channel)}", dict(w, at=at, why=why, expected=exp, got=got))
    if i < 3:
        ctx.sample(dict(w, result=got))


def _has_null_section(doc):
    return isinstance(doc, dict) and any(v is None or _has_null_section(v) for v in doc.values())


def _has_dsec(node, sels, exp):
    """does the chosen path pass a level whose default config file carries subcommand sections?"""
    while node["subs"] and isinstance(exp, dict) and exp.get("subcommand"):
        if node["dsec"]:
            return True
        node, exp = node["subs"][exp["subcommand"]], exp[exp["subcommand"]]
    return False


def chan_family(ch):
    return "argv" if ch == "argv" else ("object" if ch in ("object", "string") else ("argv+envcfg" if ch == "argv+envcfg" else "argv+cfg"))


def _cfg_dests(node, prefix=""):
    out = {prefix + "cfg"}
    for n, c in node["subs"].items():
        out |= _cfg_dests(c, prefix + n + ".")
    return out


def _tree_summary(node):
    return dict(opts=node["opts"], required=node["required"], dcf=node["dcf"], dsec=node["dsec"], subs={k: _tree_summary(v) for k, v in node["subs"].items()})


def run_shard(ctx):
    for k in list(os.environ):
        if k.startswith("APP_"):
            del os.environ[k]
    for i, rng in ctx.cases():
        case(ctx, i, rng)
