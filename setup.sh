#!/bin/sh
# Offline, idempotent: puts icontract (+asttokens, six) beside the repository's interpreter in
# /verif/.deps (git-ignored).  Also called by ./check, so a fresh restore needs nothing else.
set -e
cd "$(dirname "$0")"
if [ ! -d .deps/icontract ]; then
    PIP_NO_INDEX=1 /venv/bin/pip install -q --no-index --find-links /opt/veriftools/wheels \
        --no-deps --target .deps icontract asttokens six >/dev/null 2>&1 || {
        echo "setup: icontract could not be installed offline (contracts will be reported unavailable)" >&2
    }
fi
mkdir -p evidence replays .work
exit 0
